"""Worker fan-out: runs harness binaries as separate processes, collects their
JSON reports, and turns crashes / sanitizer reports / hangs into results."""
import array
import json
import os
import re
import shutil
import signal
import subprocess
import tempfile
import time
from concurrent.futures import ThreadPoolExecutor

JOBS = int(os.environ.get("VERIF_JOBS", "16"))


class WorkerResult:
    def __init__(self):
        self.report = None        # parsed JSON report or None
        self.rc = None            # exit status (negative = signal)
        self.timed_out = False
        self.stderr_tail = ""
        self.progress = None      # parsed progress JSON (case being run at exit)
        self.progress_text = ""
        self.hashes = set()
        self.args = []
        self.wall = 0.0
        self.crash = None         # dict(key, what) when the worker did not finish normally


_SAN_RE = [
    (re.compile(r"ERROR: AddressSanitizer: ([A-Za-z0-9_-]+)"), "asan"),
    (re.compile(r"ERROR: LeakSanitizer: (detected memory leaks)"), "lsan"),
    (re.compile(r"SUMMARY: AddressSanitizer: \d+ byte\(s\) (leaked) in \d+ allocation"), "lsan"),
    (re.compile(r"WARNING: ThreadSanitizer: ([a-z A-Z-]+?) \("), "tsan"),
    (re.compile(r"runtime error: (.*)"), "ubsan"),
]
_VG_RE = re.compile(r"==\d+== (Invalid read|Invalid write|Conditional jump or move depends on uninitialised value|"
                    r"Use of uninitialised value|Syscall param [^\n]*uninitialised|Invalid free|Mismatched free|"
                    r"Source and destination overlap|Argument '[a-z]+' of function [a-z_]+ has a fishy|Jump to the invalid address|"
                    r"Process terminating with default action of signal \d+)")
_VG_FRAME_RE = re.compile(r"==\d+==\s+(?:at|by) 0x[0-9A-F]+: ([^\n]*?) \(")
_ASSERT_RE = re.compile(r"Assertion `(.*)' failed")
_GLIBCXX_RE = re.compile(r"Assertion '(.*)' failed")
_FRAME_RE = re.compile(r"#\d+ (?:0x[0-9a-f]+ in )?([A-Za-z_][^\s(]*)")  # ASan "#0 0x.. in f" and TSan "#0 f file:line"


def _unodb_frames(text, limit=2):
    """First few stack-frame function names that belong to unodb (or harness)."""
    out = []
    for m in _FRAME_RE.finditer(text):
        fn = m.group(1)
        if fn.startswith(("__", "operator", "std::", "_start", "malloc", "free", "posix_memalign")):
            continue
        if fn.startswith("unodb::") or "unodb" in fn:
            fn = re.sub(r"<.*", "", fn)
            fn = fn.split("(")[0]
            if fn not in out:
                out.append(fn)
        if len(out) >= limit:
            break
    return out


def classify_crash(stderr_text, rc, timed_out):
    """Map an abnormal worker end to a violation key."""
    if timed_out:
        return {"key": "watchdog/timeout", "what": "worker exceeded its wall-clock watchdog", "inconclusive": True}
    for rx, name in _SAN_RE:
        m = rx.search(stderr_text)
        if m:
            kind = m.group(1).strip().replace(" ", "-")
            if name == "ubsan":
                kind = re.sub(r"0x[0-9a-f]+", "ADDR", kind)
                kind = re.sub(r"\d+", "N", kind)[:80]
            frames = _unodb_frames(stderr_text[m.start():])
            return {"key": "%s/%s@%s" % (name, kind, "<-".join(frames) or "?"),
                    "what": stderr_text[m.start():m.start() + 1500]}
    m = _VG_RE.search(stderr_text)
    if m and "Process terminating" not in m.group(1):
        kind = re.sub(r"[^A-Za-z]+", "-", m.group(1).strip()).strip("-").lower()[:60]
        frames = []
        for fm in _VG_FRAME_RE.finditer(stderr_text[m.start():]):
            fn = re.sub(r"<.*", "", fm.group(1)).split("(")[0]
            if "unodb" in fn and fn not in frames:
                frames.append(fn)
            if len(frames) >= 2:
                break
        return {"key": "memcheck/%s@%s" % (kind, "<-".join(frames) or "?"), "what": stderr_text[m.start():m.start() + 1800]}
    m = _ASSERT_RE.search(stderr_text) or _GLIBCXX_RE.search(stderr_text)
    if m:
        line = stderr_text[max(0, m.start() - 300):m.end()]
        fn = re.search(r":\d+: (.*?): Assertion", line, re.S)
        where = ""
        if fn:
            where = re.sub(r"\[with .*", "", fn.group(1), flags=re.S).strip()
            where = re.sub(r"<[^<>]*>", "", where)
            where = re.sub(r"<[^<>]*>", "", where)
            m2 = re.search(r"([A-Za-z_0-9:~]+)\(", where)
            where = m2.group(1) if m2 else where[-90:]
        return {"key": "assert/%s@%s" % (m.group(1)[:120], where), "what": line[-600:]}
    if "Execution reached an unreachable point" in stderr_text:
        return {"key": "abort/cannot-happen", "what": stderr_text[-800:]}
    if "terminate called" in stderr_text:
        m = re.search(r"terminate called[^\n]*\n[^\n]*", stderr_text)
        return {"key": "abort/terminate", "what": m.group(0) if m else stderr_text[-400:]}
    if rc is not None and rc < 0:
        return {"key": "crash/signal-%d" % (-rc), "what": stderr_text[-800:]}
    return {"key": "crash/exit-%s" % rc, "what": stderr_text[-800:]}


def _run_one(binary, env, args, timeout, workdir, idx):
    r = WorkerResult()
    rep = os.path.join(workdir, "w%d.report.json" % idx)
    prog = os.path.join(workdir, "w%d.progress" % idx)
    hashes = os.path.join(workdir, "w%d.hashes" % idx)
    errp = os.path.join(workdir, "w%d.stderr" % idx)
    full = [binary] + list(args) + ["--report", rep, "--progress", prog, "--hashes", hashes]
    r.args = list(args)
    e = dict(os.environ)
    e.update(env)
    wrap = e.pop("VERIF_WRAP", None)
    if wrap:
        full = wrap.split() + full
    t0 = time.time()
    with open(errp, "wb") as ef:
        p = subprocess.Popen(full, stdout=ef, stderr=subprocess.STDOUT, env=e, cwd=workdir,
                             start_new_session=True)
        try:
            p.wait(timeout=timeout)
        except subprocess.TimeoutExpired:
            r.timed_out = True
            try:
                os.killpg(p.pid, signal.SIGKILL)
            except OSError:
                pass
            p.wait()
    r.wall = time.time() - t0
    r.rc = p.returncode
    try:
        with open(errp, "rb") as f:
            data = f.read()
        # head and tail: a sanitizer report starts with its headline and may be much longer than the tail alone
        if len(data) > 28000:
            data = data[:8000] + b"\n[...]\n" + data[-20000:]
        r.stderr_tail = data.decode("utf-8", "replace")
    except OSError:
        pass
    if os.path.exists(rep):
        try:
            with open(rep) as f:
                r.report = json.load(f)
        except (OSError, ValueError):
            r.report = None
    if os.path.exists(prog):
        try:
            with open(prog, "rb") as f:
                txt = f.read().split(b"\0")[0].decode("utf-8", "replace")
            r.progress_text = txt
            first = txt.split("\n")[0]
            r.progress = json.loads(first) if first.strip() else None
        except (OSError, ValueError):
            r.progress = None
    if os.path.exists(hashes):
        try:
            a = array.array("Q")
            with open(hashes, "rb") as f:
                data = f.read()
            a.frombytes(data[:len(data) // 8 * 8])
            r.hashes = set(a)
        except OSError:
            pass
    if r.report is None or r.rc != 0 or r.timed_out:
        r.crash = classify_crash(r.stderr_tail, r.rc, r.timed_out)
    return r


def run_workers(binary, env, arg_lists, timeout, jobs=None):
    """Run one process per argument list; returns list of WorkerResult."""
    jobs = jobs or JOBS
    workdir = tempfile.mkdtemp(prefix="verif-run-")
    try:
        with ThreadPoolExecutor(max_workers=jobs) as ex:
            futs = [ex.submit(_run_one, binary, env, a, timeout, workdir, i) for i, a in enumerate(arg_lists)]
            return [f.result() for f in futs]
    finally:
        shutil.rmtree(workdir, ignore_errors=True)


def split_cases(total, workers):
    """Split [0,total) into contiguous chunks."""
    workers = max(1, min(workers, total))
    base, extra = divmod(total, workers)
    out, start = [], 0
    for i in range(workers):
        n = base + (1 if i < extra else 0)
        out.append((start, n))
        start += n
    return out
