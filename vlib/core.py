"""Check context: stages, merging of worker reports, verdicts, known-findings
matching, replay files, evidence files, exit codes.

Exit codes: 0 held on everything explored (and enough was explored);
1 at least one violation not listed as an open known finding;
2 harness failure / inconclusive (never folded into 0 or 1)."""
import hashlib
import json
import os
import sys
import time

from . import build as B
from . import run as R

VERIF = B.VERIF
EVIDENCE = os.environ.get("VERIF_EVIDENCE_DIR") or os.path.join(VERIF, "evidence")
REPLAYS = os.environ.get("VERIF_REPLAY_DIR") or os.path.join(VERIF, "replays")
FINDINGS = os.path.join(VERIF, "known_findings.json")

BUDGET = float(os.environ.get("VERIF_BUDGET", "1"))


def scaled(n, lo=1):
    return max(lo, int(n * BUDGET))


def load_findings():
    if not os.path.exists(FINDINGS):
        return []
    with open(FINDINGS) as f:
        return json.load(f).get("findings", [])


def finding_matches(fi, prop, v):
    if fi.get("property") != prop:
        return False
    key = v.get("key", "")
    if "key" in fi and fi["key"] != key:
        return False
    if "key_prefix" in fi and not key.startswith(fi["key_prefix"]):
        return False
    if "key" not in fi and "key_prefix" not in fi:
        return False
    w = v.get("witness") or {}
    for k, val in (fi.get("witness") or {}).items():
        if w.get(k) != val:
            return False
    return True


class Ctx:
    def __init__(self, prop, tier, seed, level="exploration"):
        self.prop, self.tier, self.seed, self.level = prop, tier, seed, level
        self.t0 = time.time()
        self.evaluations = 0
        self.hashes = set()
        self.distinct_counted = 0
        self.counters = {}
        self.samples = []
        self.notes = {}
        self.violations = []       # dicts: key, what, witness, replay
        self.other_violations = []  # tagged with another property by the harness
        self.inconclusive = []
        self.assumptions = []
        self.rule = ""
        self.extra = {}
        self.stages = []
        self.exhaustive = None
        self.min_distinct = 2
        self.floors = []           # (counter name, minimum) -> inconclusive if below

    # ------------------------------------------------------------------ stages
    def stage(self, name, engine, cfg, arg_lists, timeout=900, build_kwargs=None,
              attribute_crash_to=None, restarts=3, jobs=None, adopt_violations=False):
        """Build engine/cfg, run one worker per argument list, merge reports.

        arg_lists: list of argument lists (each must contain --seed/--cases/--first as needed).
        A worker that dies is turned into a violation attributed to this
        property (or attribute_crash_to) and resumed after the offending case."""
        build_kwargs = build_kwargs or {}
        if self.tier == "quick":
            timeout = min(timeout, 1200)  # watchdog only: a worker that hits it makes the run inconclusive
        t0 = time.time()
        try:
            binary, env = B.build(engine, cfg, **build_kwargs)
        except B.BuildError as e:
            self.inconclusive.append("build failed for %s/%s: %s" % (engine, cfg, str(e)[:1500]))
            self.stages.append({"name": name, "engine": engine, "cfg": cfg, "build": "FAILED"})
            return []
        tb = time.time() - t0
        results = []
        pending = [list(a) for a in arg_lists]
        attempt = 0
        continuations = 0
        while pending and attempt <= restarts:
            rs = R.run_workers(binary, env, pending, timeout, jobs=jobs)
            nxt = []
            cont = []
            for r in rs:
                results.append(r)
                self._merge(r, engine, cfg, build_kwargs, adopt_violations)
                if r.crash is not None:
                    self._crash(r, engine, cfg, build_kwargs, attribute_crash_to or self.prop)
                    resume = self._resume_args(r)
                    if resume is not None and not r.crash.get("inconclusive"):
                        nxt.append(resume)
                elif r.report is not None and r.report.get("resume_from") is not None:
                    # the worker ended early on purpose (scheduler verdict / poisoned state)
                    resume = self._resume_args(r, int(r.report["resume_from"]))
                    if resume is not None:
                        cont.append(resume)
            if cont and not nxt and continuations < 3000:
                # voluntary continuations do not count as crash restarts
                continuations += len(cont)
                pending = cont
                continue
            pending = nxt + cont
            attempt += 1
        if pending:
            self.inconclusive.append("%s: %d worker(s) kept ending early (crash or violation in almost every case); remaining cases not run" % (name, len(pending)))
        self.stages.append({"name": name, "engine": engine, "cfg": cfg, "workers": len(arg_lists),
                            "build_s": round(tb, 1), "run_s": round(time.time() - t0 - tb, 1)})
        return results

    @staticmethod
    def _argval(args, name):
        if name in args:
            i = args.index(name)
            if i + 1 < len(args):
                return args[i + 1]
        return None

    def _resume_args(self, r, resume_from=None):
        """Arguments that continue a worker after the offending case."""
        if "--only" in r.args or (r.progress is None and resume_from is None):
            return None
        first = int(self._argval(r.args, "--first") or 0)
        cases = self._argval(r.args, "--cases")
        if cases is None:
            return None
        cases = int(cases)
        done = resume_from if resume_from is not None else int(r.progress.get("case", first)) + 1
        remaining = first + cases - done
        if remaining <= 0:
            return None
        a = list(r.args)
        if "--first" in a:
            a[a.index("--first") + 1] = str(done)
        else:
            a += ["--first", str(done)]
        a[a.index("--cases") + 1] = str(remaining)
        return a

    def _merge(self, r, engine, cfg, build_kwargs, adopt_violations=False):
        rep = r.report
        if rep is None:
            return
        self.evaluations += int(rep.get("evaluations", 0))
        self.hashes |= r.hashes
        self.distinct_counted += int(rep.get("distinct_by_construction", 0))
        for k, v in (rep.get("counters") or {}).items():
            if k.endswith("_max"):
                self.counters[k] = max(self.counters.get(k, 0), v)
            else:
                self.counters[k] = self.counters.get(k, 0) + v
        for s in rep.get("samples") or []:
            if len(self.samples) < 6:
                self.samples.append(s)
        for k, v in (rep.get("notes") or {}).items():
            self.notes.setdefault(k, v)
        for v in rep.get("violations") or []:
            v = dict(v)
            v["replay"] = {"engine": engine, "cfg": cfg, "build_kwargs": build_kwargs,
                           "args": self._replay_args(r.args, v.get("case"))}
            if v.get("property") == "HARNESS":
                # a self-check of the machinery failed: nothing this run says can be trusted
                self.inconclusive.append("harness self-check failed: %s: %s" % (v.get("key"), str(v.get("what"))[:300]))
            elif v.get("property", self.prop) == self.prop:
                self.violations.append(v)
            elif adopt_violations:
                # this stage runs another property's workload in a configuration whose only difference is what this
                # property quantifies over: whatever that workload's oracles report there is a violation of this property
                v["key"] = "%s/%s[%s]" % (cfg, v.get("key"), v.get("property"))
                v["property"] = self.prop
                self.violations.append(v)
            else:
                self.other_violations.append(v)
        extra_total = int(rep.get("violation_total", 0)) - len(rep.get("violations") or [])
        if extra_total > 0:
            self.counters["violations_not_listed"] = self.counters.get("violations_not_listed", 0) + extra_total
        for why in rep.get("inconclusive") or []:
            self.inconclusive.append("%s: %s" % (engine, why))

    @staticmethod
    def _replay_args(args, case):
        a = []
        skip = False
        for i, x in enumerate(args):
            if skip:
                skip = False
                continue
            if x in ("--cases", "--first", "--only"):
                skip = True
                continue
            a.append(x)
        if case is not None:
            a += ["--only", str(case)]
        return a

    def _crash(self, r, engine, cfg, build_kwargs, prop):
        c = r.crash
        case = r.progress.get("case") if r.progress else None
        if c.get("inconclusive"):
            self.inconclusive.append("%s/%s: %s (case %s)" % (engine, cfg, c["what"], case))
            return
        v = {"property": prop, "key": "%s/%s" % (engine, c["key"]), "what": c["what"],
             "case": case, "seed": (r.progress or {}).get("seed"),
             "witness": {"progress": r.progress_text[:1500], "exit": r.rc},
             "replay": {"engine": engine, "cfg": cfg, "build_kwargs": build_kwargs,
                        "args": self._replay_args(r.args, case)}}
        self.violations.append(v)

    # ------------------------------------------------------------------ finish
    def add_violation(self, key, what, witness=None, replay=None):
        self.violations.append({"property": self.prop, "key": key, "what": what,
                                "witness": witness or {}, "replay": replay or {}})

    def finish(self):
        os.makedirs(EVIDENCE, exist_ok=True)
        findings = load_findings()
        new, known = [], []
        seen_keys = {}
        for v in self.violations:
            seen_keys.setdefault(v["key"], []).append(v)
        for key, vs in seen_keys.items():
            v = vs[0]
            fi = next((f for f in findings if f.get("status") == "open" and finding_matches(f, self.prop, v)), None)
            if fi is not None:
                known.append((fi, v, len(vs)))
            else:
                new.append((v, len(vs)))
        for fi, v, n in known:
            print("KNOWN-FINDING: property=%s %s [key=%s, seen %d time(s)]" % (self.prop, fi.get("what", v["what"])[:300], v["key"], n))
        exit_code = 0
        if new:
            os.makedirs(REPLAYS, exist_ok=True)
            for v, n in new:
                h = hashlib.sha256(v["key"].encode()).hexdigest()[:12]
                path = os.path.join(REPLAYS, "%s-%s.json" % (self.prop, h))
                doc = {"property": self.prop, "tier": self.tier, "seed": self.seed, "count": n, "violation": v,
                       "replay": v.get("replay", {}), "repo_hash": B.repo_hash()}
                with open(path, "w") as f:
                    json.dump(doc, f, indent=1, default=str)
                print("VIOLATION property=%s replay=%s" % (self.prop, path))
                print("  key: %s" % v["key"])
                print("  what: %s" % str(v["what"])[:700].replace("\n", "\n        "))
            exit_code = 1
        for v in self.other_violations[:5]:
            print("NOTE: workload of %s also observed a violation tagged %s (key=%s); decided by that property's own check"
                  % (self.prop, v.get("property"), v.get("key")))
        distinct = len(self.hashes) + self.distinct_counted
        for name, minimum in self.floors:
            if self.counters.get(name, 0) < minimum:
                self.inconclusive.append("coverage floor not met: %s=%s < %s" % (name, self.counters.get(name, 0), minimum))
        if self.evaluations < 1 or distinct < self.min_distinct:
            self.inconclusive.append("too little explored: evaluations=%d distinct_nontrivial=%d (floor %d)"
                                     % (self.evaluations, distinct, self.min_distinct))
        if exit_code == 0 and self.inconclusive:
            exit_code = 2
        for why in self.inconclusive[:10]:
            print("INCONCLUSIVE: %s" % str(why)[:600])
        cov = {"evaluations": int(self.evaluations), "distinct_nontrivial": int(distinct),
               "rule": self.rule, "samples": self.samples[:6] or ["(no samples recorded)"],
               "observed": dict(sorted(self.counters.items())), "stages": self.stages}
        if self.exhaustive is not None:
            cov["exhaustive"] = bool(self.exhaustive)
        if self.notes:
            cov["notes"] = self.notes
        cov.update(self.extra)
        cov["coverage_floors"] = [{"counter": n, "minimum": m, "observed": self.counters.get(n, 0)} for n, m in self.floors]
        cov["known_findings_seen"] = [{"key": v["key"], "count": n} for _fi, v, n in known]
        cov["inconclusive"] = [str(x)[:300] for x in self.inconclusive[:10]]
        ev = {"property_id": self.prop, "tier": self.tier, "seed": int(self.seed), "level": self.level,
              "coverage": cov, "assumptions": self.assumptions, "wall_s": round(time.time() - self.t0, 2),
              "violations": len(new), "verdict": {0: "held-on-observed", 1: "violated", 2: "inconclusive"}[exit_code],
              "repo_hash": B.repo_hash()}
        tmp = os.path.join(EVIDENCE, "%s.json.tmp" % self.prop)
        with open(tmp, "w") as f:
            json.dump(ev, f, indent=1, default=str)
        os.replace(tmp, os.path.join(EVIDENCE, "%s.json" % self.prop))
        print("%s %s seed=%s: %s; evaluations=%d distinct_nontrivial=%d violations=%d known=%d wall=%.1fs"
              % (self.prop, self.tier, self.seed, ev["verdict"], self.evaluations, distinct, len(new), len(known), ev["wall_s"]))
        sys.stdout.flush()
        return exit_code


def worker_args(seed, total_cases, workers, extra=()):
    """Arg lists for `workers` processes covering `total_cases` cases.

    Every worker gets its own seed stream (seed*1000003 + worker index) and a
    contiguous case-index range, so (seed, case) identifies a case uniquely."""
    out = []
    for i, (first, n) in enumerate(R.split_cases(total_cases, workers)):
        out.append(["--seed", str(seed), "--first", str(first), "--cases", str(n)] + list(extra))
    return out
