"""Per-property check definitions: which engine, builds, workloads and bounds
decide each property in the quick and the thorough tier."""
from . import core as C
from .core import scaled, worker_args

REGISTRY = {}


def prop(pid, level="exploration"):
    def deco(fn):
        REGISTRY[pid] = (fn, level)
        return fn
    return deco


def _task_args(seed, first, count, workers, extra):
    """Workers over a contiguous range of task indices [first, first+count)."""
    out = []
    from .run import split_cases
    for (f, n) in split_cases(count, workers):
        out.append(["--seed", str(seed), "--first", str(first + f), "--cases", str(n)] + list(extra))
    return out


# ------------------------------------------------------------------ E4 codec
CODEC_ASSUME = [
    "little-endian x86-64 host; IEEE-754 binary32/binary64; libm nextafter is correct",
    "oracles: C++ integer comparison, explicit IEEE total-order case analysis, byte order of normalised texts",
]


@prop("C11")
def c11(ctx):
    thorough = ctx.tier == "thorough"
    pairs = scaled(1500000 if thorough else 150000)
    common = ["--mode", "order", "--pairs", str(pairs), "--textlen", "6" if thorough else "5"]
    # structured tasks under ASan+UBSan with assertions on
    ctx.stage("structured", "codec", "dbg-asan", _task_args(ctx.seed, 0, 6, 6, common), timeout=1800)
    # 32-bit domains: uint32, int32, float = 3*4096 chunks of 2^20 values
    stride = 1 if thorough else 128
    ctx.stage("sweep32", "codec", "rel", _task_args(ctx.seed, 16, 3 * 4096, 16, common + ["--stride", str(stride)]), timeout=3600)
    ctx.exhaustive = thorough
    ctx.rule = ("successor pairs (v, succ v) over each ordered domain plus structured/random pairs; a pair is counted as "
                "distinct+non-trivial when its two values differ in the oracle order (successor pairs are distinct by construction, "
                "random pairs are de-duplicated by hash). 8/16-bit types: every value and all pairs of 8-bit values; "
                "int32/uint32/float: %s; 64-bit types and double: boundary windows of +-64 around every byte/sign/exponent "
                "boundary plus random pairs; texts: all pairs over {01,02,FF}^<=%s, trailing-zero variants, maxlen-3..maxlen+3; "
                "random mixed tuples" % ("all 2^32 values (exhaustive)" if thorough else "stride-%d sample of all 4096 chunks plus exhaustive boundary windows" % stride,
                                         "6" if thorough else "5"))
    ctx.assumptions = CODEC_ASSUME + ["texts with interior zero bytes are excluded, as the property states"]
    ctx.floors = [("tasks", 6 + 3 * 4096)]


@prop("C12")
def c12(ctx):
    thorough = ctx.tier == "thorough"
    pairs = scaled(1500000 if thorough else 150000)
    common = ["--mode", "roundtrip", "--pairs", str(pairs)]
    ctx.stage("structured", "codec", "dbg-asan", _task_args(ctx.seed, 0, 3, 3, common), timeout=1800)
    stride = 1 if thorough else 128
    ctx.stage("sweep32", "codec", "rel", _task_args(ctx.seed, 16, 3 * 4096, 16, common + ["--stride", str(stride)]), timeout=3600)
    ctx.exhaustive = thorough
    ctx.rule = ("round trips decode(encode(v)) compared bit for bit (NaN -> canonical quiet NaN), encoded size == sizeof; "
                "a case is distinct+non-trivial per distinct value bit pattern (sweeps: distinct by construction; random: by hash). "
                "8/16-bit: all; int32/uint32/float: %s; 64-bit/double: boundary windows + random; encoder reuse: random component "
                "sequences up to ~900 components (several KiB, past the 256-byte inline buffer and through several doublings) encoded by a "
                "fresh, a reset and a previously-grown encoder, bytes compared" % ("all 2^32 bit patterns each (exhaustive)" if thorough else "stride-%d sample" % stride))
    ctx.assumptions = CODEC_ASSUME + ["text components are not decoded (the library documents no text decoder)"]
    ctx.floors = [("tasks", 3 + 3 * 4096), ("keys_past_internal_buffer", 10)]


@prop("C15")
def c15(ctx):
    thorough = ctx.tier == "thorough"
    pairs = scaled(2000000 if thorough else 200000)
    common = ["--mode", "prefix", "--pairs", str(pairs), "--textlen", "6" if thorough else "5"]
    args = _task_args(ctx.seed, 0, 4, 4, common)
    # more independent streams of the random-tuple and index tasks
    for i in range(1, 7 if thorough else 3):
        args.append(["--seed", str(ctx.seed * 7919 + i), "--tasks", "1,2,3"] + common)
    ctx.stage("prefix", "codec", "dbg-asan", args, timeout=3600)
    ctx.rule = ("pairs of same-schema keys: byte equality must equal equality of the normalised component tuples, and unequal keys must not be "
                "prefixes of each other; a pair is distinct+non-trivial when the normalised tuples differ (de-duplicated by hash of both encodings). "
                "All pairs of texts over {01,02,FF}^<=%s, texts of length maxlen-3..maxlen+3 with boundary bytes varied, tuples with a text in "
                "the middle, random mixed tuples; encode_text on an input whose byte maxlen-1 is the last byte before a PROT_NONE page while the "
                "span claims up to 4096 more (over-read = SIGSEGV caught); prefix-free key sets inserted into a real db<key_view> and read back"
                % ("6" if thorough else "5"))
    ctx.assumptions = CODEC_ASSUME + ["-0/+0 distinct, NaNs unified, as the property lists",
                                      "index round trip stays inside the domain where no two keys share more than 7 bytes past a branch point (known finding D4)"]
    ctx.floors = [("guard_page_cases", 40)]


# --------------------------------------------------------------- E1 seqmodel
SEQ_TAGS = ["%s.%s" % (c, k) for c in ("db", "mutex_db", "olc_db") for k in ("u64", "key_view")]
SEQ_TRANSITIONS = ["leaf_split", "prefix_split", "grow_to_I16", "grow_to_I48", "grow_to_I256", "collapse_I4",
                   "shrink_from_I16", "shrink_from_I48", "shrink_from_I256"]
SEQ_ASSUME = [
    "reference: std::map over byte strings with unsigned byte order; uint64 keys are their 8-byte big-endian strings",
    "byte-string key sets are prefix-free by construction and every step stays inside the D4-free domain (no compressed path longer than 7 bytes), decided per step by the harness's reference trie",
    "mutex_db lock handles are released right after a get; olc_db value views are dropped at the caller's own remove/clear/quiescent state (single registered thread frees at once)",
]


def _seq_floors():
    return [("T.%s.%s" % (t, tag), 1) for tag in SEQ_TAGS for t in SEQ_TRANSITIONS]


def _seq_stage(ctx, prop, histories, extra=()):
    args = worker_args(ctx.seed, histories, 16, ["--prop", prop] + list(extra))
    ctx.stage("histories", "seqmodel", "dbg-asan", args, timeout=3600)
    ctx.floors = _seq_floors()
    ctx.assumptions = list(SEQ_ASSUME)


@prop("C01")
def c01(ctx):
    n = scaled(120000 if ctx.tier == "thorough" else 6400)
    _seq_stage(ctx, "C01", n, ["--directed"])
    ctx.rule = ("generated histories (insert incl. duplicates, remove incl. absent keys, get, empty, clear, quiescent states for olc_db) of ~300-900 "
                "operations over key-set families {dense, sparse, boundary, per-byte alphabets of sizes 1,2,3,4,5,16,17,48,49,256, zero-terminated "
                "mixed-length strings, deep fixed-length strings, encoder-shaped keys}, round-robin over {db, mutex_db, olc_db} x {uint64, key_view}; "
                "every return value compared with a byte-string map, up to 24 held value views re-read after every operation. A history is "
                "distinct+non-trivial when its operation-sequence hash is new and it contained >= 1 structural transition and >= 1 failing (duplicate/absent) call. "
                "Coverage floor: each of %d (class, key kind, transition) combinations observed at least once, measured from the reference trie" % len(_seq_floors()))


@prop("C02")
def c02(ctx):
    n = scaled(100000 if ctx.tier == "thorough" else 5600)
    _seq_stage(ctx, "C02", n)
    ctx.rule = ("scan / scan_from / scan_range calls issued between the operations of C01-style histories, each compared entry by entry (key and value bytes, "
                "order, count, no call after the visitor halted) with the slice of the reference map; bounds: stored keys, +-1 neighbours, 0/max, keys "
                "that leave the tree at a random depth below the smallest / above the largest / in a gap of the siblings there; both directions; halting "
                "after j visits (every j for results of <= 5 entries); byte-string scan_range repeated with the two bound buffers in both address "
                "orders. A scan is distinct+non-trivial when (content hash, API, bounds, direction, halt position, address order) is new and the bound is not a stored key or the expected result is non-empty")
    ctx.floors = ctx.floors + [("falloff_bounds", 1000), ("address_order_scans", 1000)]


@prop("C10")
def c10(ctx):
    n = scaled(100000 if ctx.tier == "thorough" else 5600)
    _seq_stage(ctx, "C10", n)
    ctx.rule = ("after every operation of C01-style histories (incl. failed/duplicate operations and clear): node counts per class, leaf count, memory use, "
                "growth/shrink counters and prefix-split counter compared with what the path-compressed radix tree of the current key set (reference trie, "
                "smallest fitting class per node) implies; bytes held from the allocator (allocate/free hooks) compared with reported memory use; nothing "
                "held after destruction (hooks + LeakSanitizer). A comparison is distinct+non-trivial when the key-set hash is new and the tree has >= 1 inner node")


# ------------------------------------------------------------- E2 lock_conc
@prop("C07")
def c07(ctx):
    thorough = ctx.tier == "thorough"
    n = scaled(16000 if thorough else 1600)
    for cfg in ("dbg", "rel"):
        ctx.stage("lock-" + cfg, "lock_conc", cfg, worker_args(ctx.seed + (0 if cfg == "dbg" else 500), n // 2, 8, ["--walks", "60" if thorough else "40"]), timeout=3600)
    ctx.rule = ("programs of 2-3 threads x 1-4 operations {read section with 0-2 mid checks, upgrade+multi-word write+unlock (explicit or by guard), "
                "write+unlock_and_obsolete, upgrade-only} on one optimistic_lock with 2-4 protected fields, executed under the serialized scheduler "
                "(every lock-word and field access is a scheduling point): per program a baseline, an exhaustive depth-1 preemption sweep (every thread "
                "at every point, both orders of the others), an exhaustive depth-2 sweep over all pairs of global preemption points for 2-thread "
                "programs of <= 60 steps, and random walks (p=0.3/0.1). An execution is distinct+non-trivial when its context-switch signature is new "
                "for that program and a write section overlapped an open read section")
    ctx.assumptions = ["sequentially consistent interleavings at hook granularity (x86-TSO); weakened memory orders are not observable here",
                       "shadow writer/obsolete state lags only in the permissive direction (DESIGN 2.1)",
                       "plain std::threads; read sections follow the documented protocol (must_restart checked first)"]
    ctx.floors = [("programs_swept_depth1", 100), ("programs_swept_depth2", 50), ("executions_write_overlapping_open_read", 1000),
                  ("obsolete_seen_by_try_read_lock", 100), ("upgrades_failed", 100), ("failed_validations", 100)]


# ------------------------------------------------------------------ setup
def setup_specs():
    """Every (engine, configuration) the quick tier needs; built by `check setup`."""
    return [
        ("codec", "dbg-asan", {}),
        ("codec", "rel", {}),
        ("seqmodel", "dbg-asan", {}),
        ("lock_conc", "dbg", {}),
        ("lock_conc", "rel", {}),
    ]
