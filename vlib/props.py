"""Per-property check definitions: which engine, builds, workloads and bounds
decide each property in the quick and the thorough tier."""
from . import core as C
from .core import scaled, worker_args

REGISTRY = {}


def prop(pid, level="exploration"):
    def deco(fn):
        REGISTRY[pid] = (fn, level)
        return fn
    return deco


def _task_args(seed, first, count, workers, extra):
    """Workers over a contiguous range of task indices [first, first+count)."""
    out = []
    from .run import split_cases
    for (f, n) in split_cases(count, workers):
        out.append(["--seed", str(seed), "--first", str(first + f), "--cases", str(n)] + list(extra))
    return out


# ------------------------------------------------------------------ E4 codec
CODEC_ASSUME = [
    "little-endian x86-64 host; IEEE-754 binary32/binary64; libm nextafter is correct",
    "oracles: C++ integer comparison, explicit IEEE total-order case analysis, byte order of normalised texts",
]


@prop("C11")
def c11(ctx):
    thorough = ctx.tier == "thorough"
    pairs = scaled(1500000 if thorough else 150000)
    common = ["--mode", "order", "--pairs", str(pairs), "--textlen", "6" if thorough else "5"]
    # structured tasks under ASan+UBSan with assertions on
    ctx.stage("structured", "codec", "dbg-asan", _task_args(ctx.seed, 0, 6, 6, common), timeout=1800)
    # 32-bit domains: uint32, int32, float = 3*4096 chunks of 2^20 values
    stride = 1 if thorough else 128
    ctx.stage("sweep32", "codec", "rel", _task_args(ctx.seed, 16, 3 * 4096, 16, common + ["--stride", str(stride)]), timeout=3600)
    ctx.exhaustive = thorough
    ctx.rule = ("successor pairs (v, succ v) over each ordered domain plus structured/random pairs; a pair is counted as "
                "distinct+non-trivial when its two values differ in the oracle order (successor pairs are distinct by construction, "
                "random pairs are de-duplicated by hash). 8/16-bit types: every value and all pairs of 8-bit values; "
                "int32/uint32/float: %s; 64-bit types and double: boundary windows of +-64 around every byte/sign/exponent "
                "boundary plus random pairs; texts: all pairs over {01,02,FF}^<=%s, trailing-zero variants, maxlen-3..maxlen+3; "
                "random mixed tuples" % ("all 2^32 values (exhaustive)" if thorough else "stride-%d sample of all 4096 chunks plus exhaustive boundary windows" % stride,
                                         "6" if thorough else "5"))
    ctx.assumptions = CODEC_ASSUME + ["texts with interior zero bytes are excluded, as the property states"]
    ctx.floors = [("tasks", 6 + 3 * 4096)]


@prop("C12")
def c12(ctx):
    thorough = ctx.tier == "thorough"
    pairs = scaled(1500000 if thorough else 150000)
    common = ["--mode", "roundtrip", "--pairs", str(pairs)]
    ctx.stage("structured", "codec", "dbg-asan", _task_args(ctx.seed, 0, 3, 3, common), timeout=1800)
    stride = 1 if thorough else 128
    ctx.stage("sweep32", "codec", "rel", _task_args(ctx.seed, 16, 3 * 4096, 16, common + ["--stride", str(stride)]), timeout=3600)
    # encoder reuse / growth under valgrind memcheck: bytes of a grown buffer that were never written would compare as uninitialised
    ctx.stage("structured-memcheck", "codec", "rel+memcheck", _task_args(ctx.seed + 5, 0, 3, 3, ["--mode", "roundtrip", "--pairs", str(max(2000, pairs // 30))]), timeout=3600)
    ctx.exhaustive = thorough
    ctx.rule = ("round trips decode(encode(v)) compared bit for bit (NaN -> canonical quiet NaN), encoded size == sizeof; "
                "a case is distinct+non-trivial per distinct value bit pattern (sweeps: distinct by construction; random: by hash). "
                "8/16-bit: all; int32/uint32/float: %s; 64-bit/double: boundary windows + random; encoder reuse: random component "
                "sequences up to ~900 components (several KiB, past the 256-byte inline buffer and through several doublings) encoded by a "
                "fresh, a reset and a previously-grown encoder, bytes compared" % ("all 2^32 bit patterns each (exhaustive)" if thorough else "stride-%d sample" % stride))
    ctx.assumptions = CODEC_ASSUME + ["text components are not decoded (the library documents no text decoder)"]
    ctx.floors = [("tasks", 3 + 3 * 4096), ("keys_past_internal_buffer", 10)]


@prop("C15")
def c15(ctx):
    thorough = ctx.tier == "thorough"
    pairs = scaled(2000000 if thorough else 200000)
    common = ["--mode", "prefix", "--pairs", str(pairs), "--textlen", "6" if thorough else "5"]
    args = _task_args(ctx.seed, 0, 4, 4, common)
    # more independent streams of the random-tuple and index tasks
    for i in range(1, 7 if thorough else 3):
        args.append(["--seed", str(ctx.seed * 7919 + i), "--tasks", "1,2,3"] + common)
    ctx.stage("prefix", "codec", "dbg-asan", args, timeout=3600)
    ctx.rule = ("pairs of same-schema keys: byte equality must equal equality of the normalised component tuples, and unequal keys must not be "
                "prefixes of each other; a pair is distinct+non-trivial when the normalised tuples differ (de-duplicated by hash of both encodings). "
                "All pairs of texts over {01,02,FF}^<=%s, texts of length maxlen-3..maxlen+3 with boundary bytes varied, tuples with a text in "
                "the middle, random mixed tuples; encode_text on an input whose byte maxlen-1 is the last byte before a PROT_NONE page while the "
                "span claims up to 4096 more (over-read = SIGSEGV caught); prefix-free key sets inserted into a real db<key_view> and read back"
                % ("6" if thorough else "5"))
    ctx.assumptions = CODEC_ASSUME + ["-0/+0 distinct, NaNs unified, as the property lists",
                                      "index round trip stays inside the domain where no two keys share more than 7 bytes past a branch point (known finding D4)"]
    ctx.floors = [("guard_page_cases", 40)]


# --------------------------------------------------------------- E1 seqmodel
SEQ_TAGS = ["%s.%s" % (c, k) for c in ("db", "mutex_db", "olc_db") for k in ("u64", "key_view")]
SEQ_TRANSITIONS = ["leaf_split", "prefix_split", "grow_to_I16", "grow_to_I48", "grow_to_I256", "collapse_I4",
                   "shrink_from_I16", "shrink_from_I48", "shrink_from_I256"]
SEQ_ASSUME = [
    "reference: std::map over byte strings with unsigned byte order; uint64 keys are their 8-byte big-endian strings",
    "byte-string key sets are prefix-free by construction and every step stays inside the D4-free domain (no compressed path longer than 7 bytes), decided per step by the harness's reference trie",
    "mutex_db lock handles are released right after a get; olc_db value views are dropped at the caller's own remove/clear/quiescent state (single registered thread frees at once)",
]


def _seq_floors():
    return [("T.%s.%s" % (t, tag), 1) for tag in SEQ_TAGS for t in SEQ_TRANSITIONS]


def _seq_stage(ctx, prop, histories, extra=()):
    args = worker_args(ctx.seed, histories, 16, ["--prop", prop] + list(extra))
    ctx.stage("histories", "seqmodel", "dbg-asan", args, timeout=3600)
    # the release code path (assertions compiled out) under the same sanitizers
    ctx.stage("histories-ndebug", "seqmodel", "rel-asan", worker_args(ctx.seed + 90001, max(16, histories // 3), 16, ["--prop", prop] + [x for x in extra if x != "--directed"]), timeout=3600)
    # the same histories under valgrind memcheck (plain build): results that depend on uninitialised memory, which no compiler sanitizer here reports
    ctx.stage("histories-memcheck", "seqmodel", "dbg+memcheck", worker_args(ctx.seed + 70001, max(32, histories // 100), 16, ["--prop", prop] + [x for x in extra if x != "--directed"]), timeout=3600)
    ctx.floors = _seq_floors() + [("histories_with_companion_thread", 100), ("views_held_across_own_remove", 100), ("companion_drains", 100),
                                  ("stats_checks_with_deferred_reclamation", 1000), ("steps_on_completely_full_I256", 1000),
                                  ("clears_of_completely_full_I256", 10), ("destroyed_with_completely_full_I256", 10)]
    ctx.assumptions = list(SEQ_ASSUME)


@prop("C01")
def c01(ctx):
    n = scaled(120000 if ctx.tier == "thorough" else 6400)
    _seq_stage(ctx, "C01", n, ["--directed"])
    ctx.rule = ("generated histories (insert incl. duplicates, remove incl. absent keys, get, empty, clear, quiescent states for olc_db) of ~300-900 "
                "operations over key-set families {dense, sparse, boundary, per-byte alphabets of sizes 1,2,3,4,5,16,17,48,49,256, zero-terminated "
                "mixed-length strings, deep fixed-length strings, encoder-shaped keys, full256 (one node filled with all 256 children - where the 8-bit child counter wraps -, kept around the 255/256 boundary, cleared and destroyed while full), longtail (distinct short heads, unshared tails of up to 700 bytes, beyond the iterator's inline key buffer), the empty key alone}, round-robin over {db, mutex_db, olc_db} x {uint64, key_view}; "
                "every return value compared with a byte-string map, up to 24 held value views re-read after every operation. Half of the olc_db histories run with a second "
                "QSBR-registered companion thread (it only passes through quiescent states on request), so that reclamation is really deferred: there the views of an "
                "entry survive the caller's own remove and are re-read until the caller's next quiescent state. A history is "
                "distinct+non-trivial when its operation-sequence hash is new and it contained >= 1 structural transition and >= 1 failing (duplicate/absent) call. "
                "Coverage floor: each of %d (class, key kind, transition) combinations observed at least once, measured from the reference trie" % len(_seq_floors()))


@prop("C02")
def c02(ctx):
    n = scaled(100000 if ctx.tier == "thorough" else 5600)
    _seq_stage(ctx, "C02", n)
    ctx.rule = ("scan / scan_from / scan_range calls issued between the operations of C01-style histories, each compared entry by entry (key and value bytes, "
                "order, count, no call after the visitor halted) with the slice of the reference map; bounds: stored keys, +-1 neighbours, 0/max, keys "
                "that leave the tree at a random depth below the smallest / above the largest / in a gap of the siblings there; for byte-string keys a quarter of the bounds "
                "is then cut to a proper prefix (down to the empty key) or extended by 1-3 bytes, so that bounds and stored keys differ in length; both directions; halting "
                "after j visits (every j for results of <= 5 entries); byte-string scan_range repeated with the two bound buffers in both address "
                "orders. A scan is distinct+non-trivial when (content hash, API, bounds, direction, halt position, address order) is new and the bound is not a stored key or the expected result is non-empty")
    ctx.floors = ctx.floors + [("falloff_bounds", 1000), ("address_order_scans", 1000), ("prefix_bounds", 1000), ("extension_bounds", 1000)]


@prop("C10")
def c10(ctx):
    n = scaled(100000 if ctx.tier == "thorough" else 5600)
    _seq_stage(ctx, "C10", n)
    # concurrent part: after every olc_conc execution (all threads quiesced and gone, QSBR drained)
    t = ctx.tier == "thorough"
    ctx.stage("olc-concurrent", "olc_conc", "rel", worker_args(ctx.seed + 555, scaled(24000 if t else 1600), 16, ["--prop", "C10", "--explore", "60"]), timeout=3600)
    ctx.stage("olc-concurrent-free", "olc_conc", "dbg-asan", worker_args(ctx.seed + 556, scaled(8000 if t else 320), 8, ["--prop", "C10", "--mode", "free", "--rounds", "30"]), timeout=3600, jobs=8)
    # truly parallel threads (no scheduler): counter updates lost between threads that grow / shrink nodes of one class at the same time
    ctx.stage("parallel-counters", "cfgdiff", "cfg-avx2-stats-ndebug-spin1", worker_args(ctx.seed + 77, scaled(24000 if t else 2400), 8, ["--only-mt", "2", "--mtops", "4000"]), timeout=3600, jobs=8)
    ctx.floors = ctx.floors + [("growth_shrink_conservation_checks", 10000), ("operation_restarts", 1000), ("parallel_conservation_checks", 1000), ("parallel_structural_events", 1000000)]
    ctx.rule = ("after every operation of C01-style histories (incl. failed/duplicate operations and clear): node counts per class, leaf count, memory use, "
                "growth/shrink counters and prefix-split counter compared with what the path-compressed radix tree of the current key set (reference trie, "
                "smallest fitting class per node) implies; bytes held from the allocator (allocate/free hooks) compared with reported memory use; nothing "
                "held after destruction (hooks + LeakSanitizer); in the olc_db histories with a companion thread the allocator may hold more than reported while something awaits "
                "deferred reclamation and must equal it exactly after every drain (three rounds of quiescent states of both threads). A comparison is distinct+non-trivial when the key-set hash is new and the tree has >= 1 inner node. "
                "Concurrent part (olc_db): after every execution of the C03 programs under the serialized scheduler and in free-running rounds - all threads gone, QSBR "
                "drained - node counts must equal the reference trie of the final key set, allocator bytes the reported memory, and the conservation identities "
                "nodes[X] = grow[X] - shrink[X] - grow[larger] + shrink[larger] must hold (a counter that moves on an abandoned attempt breaks them); the same identities after "
                "truly parallel phases (4 unscheduled threads each building nodes of 2/5/17 children under their own branch and taking them down again, ~4000 structural events per case): "
                "an update lost between two threads breaks them")


# ------------------------------------------------------------- E2 lock_conc
@prop("C07")
def c07(ctx):
    thorough = ctx.tier == "thorough"
    n = scaled(16000 if thorough else 1600)
    for cfg in ("dbg", "rel"):
        ctx.stage("lock-" + cfg, "lock_conc", cfg, worker_args(ctx.seed + (0 if cfg == "dbg" else 500), n // 2, 8, ["--walks", "60" if thorough else "40"]), timeout=3600)
    ctx.rule = ("programs of 2-3 threads x 1-4 operations {read section with 0-2 mid checks, upgrade+multi-word write+unlock (explicit or by guard), "
                "write+unlock_and_obsolete, upgrade-only} on one optimistic_lock with 2-4 protected fields, executed under the serialized scheduler "
                "(every lock-word and field access is a scheduling point): per program a baseline, an exhaustive depth-1 preemption sweep (every thread "
                "at every point, both orders of the others), an exhaustive depth-2 sweep over all pairs of global preemption points for 2-thread "
                "programs of <= 60 steps, and random walks (p=0.3/0.1). An execution is distinct+non-trivial when its context-switch signature is new "
                "for that program and a write section overlapped an open read section")
    ctx.assumptions = ["sequentially consistent interleavings at hook granularity (x86-TSO); weakened memory orders are not observable here",
                       "shadow writer/obsolete state lags only in the permissive direction (DESIGN 2.1)",
                       "plain std::threads; read sections follow the documented protocol (must_restart checked first)"]
    ctx.floors = [("programs_swept_depth1", 100), ("programs_swept_depth2", 50), ("executions_write_overlapping_open_read", 1000),
                  ("obsolete_seen_by_try_read_lock", 100), ("upgrades_failed", 100), ("failed_validations", 100)]


# -------------------------------------------------------------- E2 olc_conc
OLC_ASSUME = [
    "sequentially consistent interleavings at hook granularity (every lock-word, protected-field and QSBR atomic access is a scheduling point); x86-TSO, weakened memory orders are not observable here",
    "every thread is a registered qsbr_thread, passes quiescent states only between operations, drops value views at its own remove of that key and at its own quiescent state; the main thread is paused while the others run",
    "per-key Wing-Gong checker with memoisation; a search-budget overrun is inconclusive, never a verdict",
]
OLC_FREE = ("Free-running stages: the same programs on real parallel threads, 30 rounds each with random yields / busy-waits at every hook, stamps from one "
            "atomic counter, judged by the same oracles, under ThreadSanitizer (rel-tsan; no allocation tracker there) and AddressSanitizer (dbg-asan). ")
OLC_RULE = ("programs = structural family (hot node with fan-out 2,3,4,5,16,17,48,49 at a random depth, as root or under a two/three-child top node, "
            "optionally with a deeper child; or an empty / one-leaf / two-leaf root) + 2-4 qsbr_threads x 1-4 operations {get, insert, remove, scan, scan_from, "
            "scan_range (both directions, optional halting)} on keys that sit on the transitions (grow at capacity, shrink at minimum, collapse with prefix "
            "prepend, prefix split, root replacement), quiescent states after random operations, uint64 and 8-byte key_view keys. Even cases: 2-3 threads x 1 "
            "operation, exhaustive depth-1 preemption sweep (every thread at every scheduling point incl. its QSBR exit, both orders of the others); odd cases: "
            "PCT schedules with 1-3 random priority-change points and random walks. ")


def _lincheck_selftest(ctx):
    """The linearizability checker against brute force on random small histories (oracle self-check)."""
    ctx.stage("lincheck-selftest", "lincheck_test", "rel", worker_args(ctx.seed, 160000, 4, []), timeout=600, jobs=4)


def _olc_stages(ctx, prop, cases_asan, cases_rel, explore, free_cases=0):
    extra = ["--prop", prop, "--explore", str(explore)]
    if prop in ("C03", "C09"):
        _lincheck_selftest(ctx)
    ctx.stage("sched-dbg-asan", "olc_conc", "dbg-asan", worker_args(ctx.seed, cases_asan, 16, extra), timeout=3600)
    ctx.stage("sched-rel", "olc_conc", "rel", worker_args(ctx.seed + 7777, cases_rel, 16, extra), timeout=3600)
    if prop == "C04" or ctx.tier == "thorough":
        # the release code path (which ASan's build does not compile the same way) under valgrind memcheck, addressability only:
        # any access to freed memory. Definedness checking would be unsound here (see build.py: optimistic readers)
        ctx.stage("sched-rel-memcheck", "olc_conc", "rel+memcheck-addr", worker_args(ctx.seed + 8888, max(64, cases_rel // 12), 16, extra), timeout=3600)
    if free_cases:
        fx = ["--prop", prop, "--mode", "free", "--rounds", "30"]
        ctx.stage("free-tsan", "olc_conc", "rel-tsan", worker_args(ctx.seed + 31, free_cases, 8, fx), timeout=3600, jobs=8)
        ctx.stage("free-asan", "olc_conc", "dbg-asan", worker_args(ctx.seed + 37, free_cases, 8, fx), timeout=3600, jobs=8)
    ctx.assumptions = list(OLC_ASSUME)
    ctx.floors = [("programs_swept_depth1", 50), ("executions_with_overlap_on_a_key", 500), ("executions_with_spin_or_restart", 500),
                  ("executions_with_free_during_run", 500), ("sweeps_completed", 1000), ("conservation_checks", 1000)]


@prop("C03")
def c03(ctx):
    t = ctx.tier == "thorough"
    _olc_stages(ctx, "C03", scaled(16000 if t else 800), scaled(32000 if t else 1600), 60, scaled(24000 if t else 480))
    ctx.rule = OLC_RULE + OLC_FREE + ("Every execution's call/return history (stamps = scheduler event clock, unique value per insert, final state read by the main thread) is "
                           "checked per key for linearizability. An execution is distinct+non-trivial when (program, context-switch signature) is new, >= 1 switch "
                           "fell inside an operation and >= 2 operations of different threads overlapped on one key")


@prop("C04")
def c04(ctx):
    t = ctx.tier == "thorough"
    _olc_stages(ctx, "C04", scaled(20000 if t else 1000), scaled(24000 if t else 1200), 60, scaled(24000 if t else 480))
    ctx.rule = OLC_RULE + OLC_FREE + ("Oracles: AddressSanitizer on every access (dbg-asan stage); hold-set monitor - each reader keeps the value views from get / scan visitors "
                           "with a copy of the bytes until its own next quiescent state, re-reads them right before it, and every free notification is checked "
                           "against the addresses other threads hold; after each execution (all threads exited, two quiescent states of the main thread) QSBR must "
                           "be drained and the live allocate_aligned blocks must equal the nodes reachable per dump() exactly, and be zero after destruction. "
                           "Distinct+non-trivial: (program, switch signature) new, >= 1 intra-operation switch and >= 1 block freed during the concurrent phase")
    ctx.floors = ctx.floors + [("held_views_reread", 1000), ("frees_during_concurrent_phase", 1000)]


@prop("C09")
def c09(ctx):
    t = ctx.tier == "thorough"
    _olc_stages(ctx, "C09", scaled(16000 if t else 800), scaled(32000 if t else 1600), 60, scaled(24000 if t else 480))
    ctx.rule = OLC_RULE + OLC_FREE + ("In this check ~45% of the operations are scans and thread 0 always starts with one. Per scan: delivered keys strictly monotone and inside "
                           "the interval; for every key that can ever be present (initial keys + operation keys) the observation - delivered value with its delivery "
                           "stamp, or absence over [call, return] (only up to the halting point) - is appended as a pseudo-get to that key's point-operation history "
                           "and must be linearizable with it. Distinct+non-trivial: (program, switch signature) new, >= 1 intra-operation switch and a scan "
                           "overlapped a successful insert/remove of another thread")
    ctx.floors = ctx.floors + [("scans_judged", 2000), ("executions_scan_overlapping_successful_write", 300), ("scans_with_prefix_bounds", 1000)]


@prop("C14")
def c14(ctx):
    t = ctx.tier == "thorough"
    _olc_stages(ctx, "C14", scaled(16000 if t else 800), scaled(32000 if t else 1600), 60)
    ctx.stage("oom-olc", "oom", "dbg-oom", worker_args(ctx.seed, scaled(40000 if t else 1600), 16, ["--prop", "C14"]), timeout=3600, build_kwargs=OOM_BUILD)
    ctx.floors = ctx.floors + [("olc_lock_sweeps", 1000), ("executions_with_a_waiter_starved_for_2e20_polls", 50)]
    ctx.rule = OLC_RULE + ("In ~3% of the executions the first thread that reaches a spin point keeps polling for 1.1-1.4 million iterations before the lock holder is scheduled again "
                           "(starvation probe: behaviour that only changes after very long waits). Liveness is decided logically by the scheduler: DEADLOCK when every unfinished thread has reached a spin point 50 times in a row while "
                           "no thread performed a write-kind step; LIVELOCK when an execution exceeds 400000 steps; after every execution a single-threaded sweep (get "
                           "of every key, full forward and reverse scan, insert+remove probes next to every operation key at three byte positions) runs with the "
                           "scheduler still active, so a lock left behind is reported as a deadlock of the sweep. Distinct+non-trivial: (program, switch signature) "
                           "new and >= 1 spin or restart observed. Additionally every allocation-failure point of C08 on olc_db is followed by the same kind of sweep")


# ------------------------------------------------------------- E2 qsbr_conc
QSBR_RULE = ("episodes: the main thread paused, 2-4 initial qsbr_threads (up to 7 with spawns) choosing actions online from {take a reference to the object in a shared "
             "slot, use, drop, retire (unlink + on_next_epoch_deallocate), quiescent, pause, resume, spawn, exit} with weights that depend on the visible QSBR state "
             "(last thread of the previous epoch => prefer leaving; epoch change in progress => prefer spawn/pause/exit; pending requests => prefer quiescent), every "
             "QSBR state/orphan-list atomic access (thread exit included) a scheduling point; PCT schedules with 0-4 priority-change points and random walks; each "
             "episode ends with a lockstep drain (three rounds of one quiescent state per registered thread), threads exiting one by one, the last one passing two "
             "quiescent states, then the main thread resumes and quiesces twice. ")


def _qsbr_stages(ctx, prop, cases, execs, seed_off=0):
    extra = ["--prop", prop, "--execs", str(execs)]
    ctx.stage("sched-dbg-asan", "qsbr_conc", "dbg-asan", worker_args(ctx.seed + seed_off, cases, 16, extra), timeout=3600)
    ctx.stage("sched-rel", "qsbr_conc", "rel", worker_args(ctx.seed + seed_off + 4242, cases, 16, extra), timeout=3600)
    ctx.stage("sched-rel-memcheck", "qsbr_conc", "rel+memcheck", worker_args(ctx.seed + seed_off + 5353, max(160, cases // 8), 16, extra), timeout=3600)
    # free-running RCU-style stress (qsbr_free): plain reads by reference holders vs. the plain poison write + free of the reclaimer are ordered
    # only by what QSBR itself synchronises, so a weakened memory order is a TSan data race here (the serialized scheduler assumes SC)
    t = ctx.tier == "thorough"
    rounds = scaled(40000 if t else 2400)
    tsan_cfg = "rel-tsan-nostats" if prop == "C05" else "rel-tsan"  # without / with the statistics mutexes (they add happens-before edges)
    ctx.stage("free-tsan", "qsbr_free", tsan_cfg, [["--seed", str((ctx.seed + seed_off) * 100 + i), "--first", "0", "--cases", str(rounds)] for i in range(8)], timeout=3600, jobs=8)
    ctx.stage("free-asan", "qsbr_free", "dbg-asan", [["--seed", str((ctx.seed + seed_off) * 100 + 50 + i), "--first", "0", "--cases", str(rounds)] for i in range(8)], timeout=3600, jobs=8)
    ctx.assumptions = ["sequentially consistent interleavings at hook granularity; x86-TSO",
                       "shadow registration uses call/return boundaries on the permissive side: a thread counts as registered from the return of its start/resume to the "
                       "call of its pause/exit; it is discharged by a quiescent state or pause that returns after the retire, or while inside such a call / exiting / paused",
                       "preconditions respected: no quiescent/pause with live references, no retire while paused"]
    ctx.floors = [("episodes", 5000), ("retires_with_other_threads_registered", 5000), ("frees_deferred", 2000), ("frees_of_orphaned_requests", 1000),
                  ("epoch_changes", 5000), ("drains_completed", 2000), ("shutdowns_checked", 2000), ("thread_count_checks", 10000), ("intra_operation_switches", 5000),
                  ("rounds", 10000), ("uses_of_held_references", 100000), ("frees_executed_by_another_thread_than_the_requester", 100000), ("exits_with_requests_pending", 10000),
                  ("pause_resume", 10000), ("threads_spawned_mid_round", 1000)]


@prop("C05")
def c05(ctx):
    t = ctx.tier == "thorough"
    _qsbr_stages(ctx, "C05", scaled(40000 if t else 2400), 40)
    ctx.rule = QSBR_RULE + ("Oracles: reference oracle (a free notification for a retired object while another thread holds a reference to it; canaries checked on every "
                            "use, ASan on every dereference) and trace rule (at the call of on_next_epoch_deallocate the set of other registered threads is snapshotted; "
                            "a free while one of them is undischarged is a violation; an empty set is the only case in which an immediate free is allowed). An episode is "
                            "distinct+non-trivial when (action trace, switch signature) is new, >= 1 retire happened with other threads registered and >= 1 free was deferred or orphaned")


@prop("C06")
def c06(ctx):
    t = ctx.tier == "thorough"
    _qsbr_stages(ctx, "C06", scaled(40000 if t else 2400), 40, seed_off=606060)  # other episodes than C05: the two checks share both oracles
    ctx.rule = QSBR_RULE + ("Oracles: one free notification per retired block (0->1 only, none for unretired blocks, none missing at the end); reported thread count == shadow "
                            "count at every action boundary with no start/exit/pause/resume in flight; every request made before the drain is freed by the end of the third "
                            "lockstep round; after all but one thread unregistered, two quiescent states leave the orphan lists, the thread's own lists and the harness's pending "
                            "set empty. Distinct+non-trivial: as C05 and >= 1 request was orphaned or a leaving thread handled orphans")


# ----------------------------------------------------------------- E3 oom
OOM_BUILD = {"extra_repo_cpp": ["test_heap.cpp"], "libs": ["-ldl"]}
OOM_CASES = ["insert/first-leaf", "insert/leaf-split", "insert/prefix-split", "insert/grow-to-I16", "insert/grow-to-I48", "insert/grow-to-I256", "insert/add-to-node",
             "remove/shrink-from-I16", "remove/shrink-from-I48", "remove/shrink-from-I256"]


@prop("C08", level="fault_enumeration")
def c08(ctx):
    t = ctx.tier == "thorough"
    ctx.stage("inject", "oom", "dbg-oom", worker_args(ctx.seed, scaled(140000 if t else 5600), 16, ["--prop", "C08"]), timeout=3600, build_kwargs=OOM_BUILD)
    ctx.rule = ("for operations of generated histories (C01 key families; db, mutex_db, olc_db with a single registered thread; uint64 and byte-string keys): snapshot "
                "{entries and values via scan, empty(), node counts, growth/shrink/prefix-split counters, reported memory, live allocate_aligned blocks (hooks), QSBR "
                "state word and request-list getters}, then for k = 1, 2, ... the repo's allocation_failure_injector (covering operator new through test_heap.cpp) "
                "fails the k-th allocation: the failure must surface as std::bad_alloc, the snapshot must be unchanged, on olc_db a single-threaded sweep under the "
                "scheduler must terminate; the first k that completes is the retry and must return the model's result - so k covers exactly the allocations the "
                "operation makes. Every operation is injected on trees of <= 48 entries, structural operations always, others with probability 48/n. Over-long (2^32 "
                "byte, MAP_NORESERVE) keys and values must raise std::length_error without a trace. QSBR: qsbr_resume (and after the retry that succeeds the thread must "
                "behave normally: with a second thread registered it retires objects, pauses with the requests pending, and they must be executed), qsbr_thread construction, "
                "on_next_epoch_deallocate (second thread parked so that the request queues; and, with a second thread that quiesces on request, after random preludes of "
                "requests and quiescent states of both threads, so that the failing call finds requests pending in either interval and its own view of the epoch current "
                "or one behind: state word, request-list getters, QSBR statistics getters and the set of live blocks must be unchanged). An interposed pthread_mutex monitor checks after every injected call that the "
                "calling thread holds no std::mutex (mutex_db, QSBR statistics). evaluations = (operation, k) injections; distinct+non-trivial = "
                "(operation kind, structural case, class, key kind, k) is new and the fault really surfaced as an exception")
    ctx.assumptions = ["one fault per operation; the injector keeps failing every later allocation until disarmed (at least as hostile during unwinding)",
                       "harness allocations happen only while the injector is disarmed or paused (tracker callbacks)",
                       "no sanitizer in this build (replaced operator new); leak accounting by the allocation hooks"]
    tags = ["%s.%s" % (c, k) for c in ("db", "mutex_db", "olc_db") for k in ("u64", "key_view")]
    ctx.floors = [("surfaced.%s.%s" % (c, tag), 1) for c in OOM_CASES for tag in tags]
    ctx.floors += [("injections.qsbr_resume", 10), ("injections.qsbr_thread", 10), ("injections.on_next_epoch_deallocate", 10), ("olc_lock_sweeps", 1000), ("mutex_balance_checks", 10000),
                   ("length_error_key_cases", 5), ("length_error_value_cases", 5),
                   ("dealloc_failures.stale_epoch_view.requests_pending", 20), ("dealloc_failures.stale_epoch_view.nothing_pending", 20),
                   ("dealloc_failures.current_epoch_view.requests_pending", 20), ("dealloc_failures.current_epoch_view.nothing_pending", 20),
                   ("pauses_with_pending_requests_after_retried_resume", 100)]


# ------------------------------------------------------------- E6 cfgdiff
CFG_SUBSET = ["cfg-avx2-stats-assert-spin1", "cfg-avx2-nostats-ndebug-spin2", "cfg-sse41-stats-ndebug-spin2",
              "cfg-sse41-nostats-assert-spin1", "cfg-avx2-stats-ndebug-spin1", "cfg-sse41-stats-assert-spin2"]


def _cfg_all():
    from . import build as B
    return sorted(c for c in B.CONFIGS if c.startswith("cfg-"))


@prop("C16")
def c16(ctx):
    from . import build as B
    t = ctx.tier == "thorough"
    cfgs = (_cfg_all() + ["dbg-asan", "rel-asan"]) if t else CFG_SUBSET
    ncases = scaled(5600 if t else 700)
    nworkers = 8 if t else 2
    try:
        B.build_many([("cfgdiff", c, {}) for c in cfgs], jobs=8)
    except B.BuildError as e:
        ctx.inconclusive.append("build failed: %s" % str(e)[:800])
        return
    per_cfg = {}
    from concurrent.futures import ThreadPoolExecutor
    args = worker_args(ctx.seed, ncases, nworkers, ["--ops", "250", "--mtops", "1500"])

    def run_cfg(c):
        return c, ctx.stage("run-" + c, "cfgdiff", c, args, timeout=3600, jobs=nworkers)
    with ThreadPoolExecutor(max_workers=max(1, 16 // nworkers)) as ex:
        for c, rs in ex.map(run_cfg, cfgs):
            per_cfg[c] = rs
    # two opposite corners of the matrix under valgrind memcheck: a result that depends on uninitialised memory is the classic
    # source of configuration-dependent behaviour, and neither ASan nor UBSan reports it
    mc_args = worker_args(ctx.seed + 99, scaled(5600 if t else 800), 8, ["--ops", "250", "--no-mt", "1"])  # single-threaded cases only: see build.py on optimistic readers
    for c in ("cfg-sse41-nostats-assert-spin1", "cfg-avx2-stats-ndebug-spin1"):
        if c in cfgs:
            rs = ctx.stage("memcheck-" + c, "cfgdiff", c + "+memcheck", mc_args, timeout=3600, jobs=8)
            ctx.counters["memcheck_cases"] = ctx.counters.get("memcheck_cases", 0) + sum(int(r.report.get("evaluations", 0)) for r in rs if r.report)
    # the concurrent workloads of C03/C09 and C05 in a configuration none of the other checks uses (no statistics, SSE4.1, the other
    # spin-wait variant): whatever their oracles report there - while the statistics builds are clean - depends on the build configuration
    ns_cfgs = ["rel-nostats"] + (["dbg-nostats-asan"] if t else [])
    for c in ns_cfgs:
        ctx.stage("olc-" + c, "olc_conc", c, worker_args(ctx.seed + 1234, scaled(8000 if t else 480), 16, ["--prop", "C09", "--explore", "40"]), timeout=3600, adopt_violations=True)
        ctx.stage("qsbr-" + c, "qsbr_conc", c, worker_args(ctx.seed + 2345, scaled(16000 if t else 1200), 16, ["--prop", "C05", "--execs", "40"]), timeout=3600, adopt_violations=True)
    ctx.counters["no_statistics_concurrent_executions"] = ctx.evaluations
    ref = cfgs[0]
    compared = 0
    for c in cfgs:
        ok_reports = [r for r in per_cfg[c] if r.report is not None and r.crash is None]
        if len(ok_reports) != len(args):
            continue  # the crash itself has been turned into a violation by the stage
        for wi, r in enumerate(per_cfg[c]):
            rr = per_cfg[ref][wi]
            if rr.report is None or r.report is None:
                continue
            n, nr = r.report["notes"], rr.report["notes"]
            compared += len(n.get("per_case", []))
            if c == ref:
                continue
            for kind, idx in (("trace", 1), ("stats", 2)):
                if kind == "stats" and ("stats_hash" not in n or "stats_hash" not in nr):
                    continue
                key = kind + "_hash"
                if n.get(key) == nr.get(key):
                    continue
                first = None
                for a_, b_ in zip(n["per_case"], nr["per_case"]):
                    if a_[idx] != b_[idx]:
                        first = (a_[0], a_[idx], b_[idx])
                        break
                what = ("%s hash differs between %s and %s for the same seed; first divergent case %s"
                        % (kind, c, ref, first[0] if first else "?"))
                ctx.add_violation("cfgdiff/%s-differs" % kind, what,
                                  witness={"config_a": c, "config_b": ref, "case": first[0] if first else None,
                                           "hash_a": first[1] if first else None, "hash_b": first[2] if first else None,
                                           "case_kind": ["db.u64", "db.key_view", "mutex_db.u64", "mutex_db.key_view", "olc_db.u64", "olc_db.key_view", "olc_db multithreaded"][int(first[0]) % 7] if first else None},
                                  replay={"engine": "cfgdiff", "cfg": c, "build_kwargs": {},
                                          "args": ["--seed", str(ctx.seed), "--ops", "250", "--mtops", "1500", "--only", str(first[0] if first else 0)]})
    ctx.evaluations = compared
    ctx.distinct_counted = max(0, (len(cfgs) - 1)) * ncases if compared else 0
    ctx.hashes = set()
    ctx.samples = [{"configurations": cfgs, "cases_per_configuration": ncases, "seed": ctx.seed,
                    "reference_trace_hashes": [r.report["notes"].get("trace_hash") for r in per_cfg[ref] if r.report]}]
    ctx.counters["configurations"] = len(cfgs)
    ctx.counters["assertion_enabled_configurations"] = len([c for c in cfgs if "-assert-" in c or c == "dbg-asan"])
    ctx.counters["cases_compared"] = compared
    ctx.exhaustive = False
    ctx.rule = ("the same seeded cases (histories on db / mutex_db / olc_db x uint64 / byte-string keys of <= 8 bytes with scans incl. fall-off bounds, on olc_db scans "
                "followed by removals that free the scanned inner nodes; every 7th case a 4-thread olc_db section on disjoint key ranges under a shared root) executed "
                "in %d build configurations (%s); per case a hash of every result / get bytes / scan sequence and, in statistics builds, of node counts and "
                "growth/shrink/prefix-split counters after every operation; hashes must agree with the reference configuration, every assertion-enabled build "
                "must exit cleanly. evaluations = (configuration, case) executions compared; distinct+non-trivial = (configuration pair with the reference, case) "
                "comparisons, each distinct by construction" % (len(cfgs), "all 16" if t else "a pairwise-covering subset of the 16"))
    ctx.assumptions = ["only schedule-independent outputs are hashed; reported memory use is excluded (node sizes legitimately differ between assertion/NDEBUG and AVX2/SSE4.1 builds)",
                       "ARM/NEON and MSVC code paths cannot be built in this sandbox", "hooks are off in these builds: the plain library"]
    ctx.floors = [("cases_compared", len(cfgs) * ncases), ("steps_on_completely_full_I256", 1000), ("destroyed_with_completely_full_I256", 10)]


# ---------------------------------------------------------------- E7 qptr
QPTR_TOTAL = {3: 291918, 4: 19266654, 5: 1271599230}


@prop("C17")
def c17(ctx):
    t = ctx.tier == "thorough"
    L = 4
    tot = QPTR_TOTAL[L]
    # enumerated sequences with fork probes after every operation (assertions on, no sanitizer)
    ctx.stage("enum-dbg", "qptr", "dbg", worker_args(ctx.seed, tot, 16, ["--mode", "enum", "--len", str(L)]), timeout=3600)
    ctx.stage("random-dbg", "qptr", "dbg", worker_args(ctx.seed, scaled(240000 if t else 32000), 16, ["--mode", "random"]), timeout=3600)
    # the same with a second registered thread that never quiesces: every probed quiescent state is the thread's 2nd, 3rd, ... in one epoch
    ctx.stage("random-dbg-companion", "qptr", "dbg", worker_args(ctx.seed + 5, scaled(120000 if t else 16000), 16, ["--mode", "random", "--companion", "1"]), timeout=3600)
    ctx.stage("enum3-dbg-companion", "qptr", "dbg", worker_args(ctx.seed, QPTR_TOTAL[3], 16, ["--mode", "enum", "--len", "3", "--companion", "1"]), timeout=3600)
    # NDEBUG: semantics, and every probe must be accepted
    ctx.stage("enum-rel", "qptr", "rel", worker_args(ctx.seed, tot, 16, ["--mode", "enum", "--len", str(L), "--last-only", "1"]), timeout=3600)
    ctx.stage("random-rel", "qptr", "rel", worker_args(ctx.seed + 11, scaled(160000 if t else 24000), 16, ["--mode", "random"]), timeout=3600)
    # ASan+UBSan: pointer semantics without forking
    ctx.stage("enum-asan", "qptr", "dbg-asan", worker_args(ctx.seed, QPTR_TOTAL[5] if t else tot, 16, ["--mode", "enum", "--len", "5" if t else str(L)]), timeout=3600)
    ctx.stage("random-asan", "qptr", "dbg-asan", worker_args(ctx.seed + 23, scaled(800000 if t else 100000), 16, ["--mode", "random"]), timeout=3600)
    if t:
        ctx.stage("enum5-dbg", "qptr", "dbg", worker_args(ctx.seed, QPTR_TOTAL[5], 16, ["--mode", "enum", "--len", "5", "--last-only", "1"]), timeout=7200)
    ctx.exhaustive = True
    ctx.rule = ("operation sequences over 3 wrapper slots x 2 buffers on {construct from pointer, default-construct, copy, move, copy-assign, move-assign, ++, --, "
                "post ++/--, +=, -=, +, -, n+ptr, destroy}: every applicable sequence of length <= %d enumerated (index space %d; inapplicable indices are skipped by "
                "a shadow-only pre-pass)%s, plus random sequences of length 4-60 incl. qsbr_ptr_span construct/copy/move/assign/iterate. After every operation "
                "all live wrappers are compared with raw-pointer shadows (get, all six comparisons, difference, dereference, indexing, ->, temporaries); liveness "
                "is probed in a forked child calling quiescent() / qsbr_pause() / pause+resume: SIGABRT <=> rejected, expected exactly when a non-null wrapper "
                "is alive (assertion build) and never (NDEBUG build). A sequence is distinct+non-trivial when its hash is new and a non-null wrapper was alive at "
                ">= 1 probe (ASan build, which does not fork: at >= 1 step)" % (L, tot, "; length 5 too in this tier" if t else ""))
    ctx.assumptions = ["self-assignment excluded as the property states; moved-from spans are only destroyed or assigned to",
                       "a live non-null wrapper on a paused thread cannot be produced without breaking another precondition: qsbr_resume only in the accepted direction",
                       "the harness process is single-threaded, so fork() is safe"]
    ctx.floors = [("probes", 10000), ("probes_rejected", 1000), ("probes_accepted", 1000), ("span_checks", 1000), ("probe_pause", 100), ("probe_resume", 100), ("sequences_with_companion_thread", 1000)]


# ------------------------------------------------------------ E5 mutex_lin
@prop("C13")
def c13(ctx):
    t = ctx.tier == "thorough"
    libs = {"libs": ["-ldl"]}
    _lincheck_selftest(ctx)
    rounds_rel = scaled(500000 if t else 28000)
    rounds_tsan = scaled(110000 if t else 6000)
    ctx.stage("free-rel", "mutex_lin", "rel", [["--seed", str(ctx.seed * 100 + i), "--first", "0", "--cases", str(rounds_rel)] for i in range(8)],
              timeout=7200, build_kwargs=libs)
    ctx.stage("free-tsan", "mutex_lin", "rel-tsan", [["--seed", str(ctx.seed * 100 + 50 + i), "--first", "0", "--cases", str(rounds_tsan)] for i in range(8)],
              timeout=7200, build_kwargs=libs)
    ctx.stage("free-memcheck", "mutex_lin", "rel+memcheck", [["--seed", str(ctx.seed * 100 + 70 + i), "--first", "0", "--cases", str(scaled(4000 if t else 400))] for i in range(8)],
              timeout=7200, build_kwargs=libs)
    if t:
        ctx.stage("free-asan", "mutex_lin", "dbg-asan", [["--seed", str(ctx.seed * 100 + 90 + i), "--first", "0", "--cases", str(scaled(150000))] for i in range(4)],
                  timeout=7200, build_kwargs=libs)
    ctx.rule = ("rounds: a fresh mutex_db<uint64>, 2-8 keys sharing prefixes (20% of rounds with static ballast keys so the branching node crosses 4/16/48 children), "
                "pre-populated, then 2-8 free-running std::threads x 2-6 operations {insert(unique value, 1 in 7 of length 0), remove, get, empty, scan / reverse scan / scan_from / scan_range over the whole key space, clear, the statistics accessors, dump} released by a spin barrier, with "
                "per-thread timing perturbation; stamps from one atomic counter around every call. Oracles: per-key linearizability (Wing-Gong) incl. a final "
                "snapshot; owns_lock() == hit on every get; value bytes re-read under the held handle; hold-window rule (no other thread's operation called and "
                "returned inside a hold); interposed pthread_mutex monitor (held count 0 after every call, 1 exactly after a hit) in the non-TSan build; ThreadSanitizer "
                "in the other. evaluations = operations in checked rounds; a round is distinct+non-trivial when its hash is new and >= 2 operations overlapped "
                "on one key or an operation overlapped another thread's hold window")
    ctx.assumptions = ["OS schedules with perturbation only (no hooks inside std::mutex), which is what the property quantifies over",
                       "x86: lock xadd stamps respect real time", "wall-clock is used only by the hang watchdog, a backstop for the interposition monitor"]
    ctx.floors = [("rounds", 10000), ("overlapping_pairs", 10000), ("blocked_behind_hold", 1000), ("lock_monitor_checks", 10000), ("gets_hit", 1000), ("gets_miss", 1000), ("clears", 1000), ("statistics_calls", 1000), ("dumps", 500)]


# ------------------------------------------------------------------ setup
def setup_specs():
    """Every (engine, configuration) the quick tier needs; built by `check setup`."""
    return [
        ("codec", "dbg-asan", {}),
        ("codec", "rel", {}),
        ("seqmodel", "dbg-asan", {}), ("seqmodel", "rel-asan", {}), ("seqmodel", "dbg", {}),
        ("olc_conc", "dbg-asan", {}),
        ("olc_conc", "rel", {}), ("olc_conc", "rel-tsan", {}), ("lincheck_test", "rel", {}),
        ("qsbr_conc", "dbg-asan", {}), ("qsbr_conc", "rel", {}),
        ("qsbr_free", "rel-tsan-nostats", {}), ("qsbr_free", "rel-tsan", {}), ("qsbr_free", "dbg-asan", {}),
        ("oom", "dbg-oom", OOM_BUILD),
        ("lock_conc", "dbg", {}),
    ] + [("cfgdiff", c, {}) for c in CFG_SUBSET] + [("olc_conc", "rel-nostats", {}), ("qsbr_conc", "rel-nostats", {})] + [
        ("qptr", "dbg", {}), ("qptr", "rel", {}), ("qptr", "dbg-asan", {}),
        ("mutex_lin", "rel", {"libs": ["-ldl"]}), ("mutex_lin", "rel-tsan", {"libs": ["-ldl"]}),
        ("lock_conc", "rel", {}),
    ]
