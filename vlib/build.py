"""Build cache: compiles harness translation units straight against /repo.

A build is identified by (engine source, configuration). Its cache key is a
hash of the compiler version, the flags, every source file of /repo that a
harness can include, and the harness sources. A check therefore rebuilds
exactly when /repo's working tree, the harness or the flags changed.
"""
import fcntl
import hashlib
import os
import shutil
import subprocess
import time
from concurrent.futures import ThreadPoolExecutor

VERIF = os.path.dirname(os.path.dirname(os.path.abspath(__file__)))
REPO = os.environ.get("VERIF_REPO", "/repo")
BUILD = os.path.join(VERIF, "build")
HARNESS = os.path.join(VERIF, "harness")
CXX = os.environ.get("VERIF_CXX", "g++")

REPO_CPP = ["qsbr.cpp", "qsbr_ptr.cpp", "art_internal.cpp"]

COMMON = ["-std=c++20", "-pthread", "-fno-omit-frame-pointer", "-g1",
          "-Wno-deprecated-declarations", "-Wno-attributes",
          "-DUNODB_SPINLOCK_LOOP_VALUE=1"]

ASAN_RT = ("ASAN_OPTIONS", "abort_on_error=1:detect_leaks=1:strict_string_checks=1:"
           "detect_stack_use_after_return=0:allocator_may_return_null=1:handle_abort=0")
UBSAN_RT = ("UBSAN_OPTIONS", "print_stacktrace=1:halt_on_error=1")
LSAN_RT = ("LSAN_OPTIONS", "max_leaks=40:print_suppressions=0")
TSAN_RT = ("TSAN_OPTIONS", "halt_on_error=1:second_deadlock_stack=1:report_signal_unsafe=0")

HOOKS = ["-DUNODB_DETAIL_VERIF_HOOKS"]
STATS = ["-DUNODB_DETAIL_WITH_STATS"]

# name -> (flags, runtime env)
CONFIGS = {
    # assertions on, ASan+UBSan+LSan
    "dbg-asan": (COMMON + HOOKS + STATS + ["-mavx2", "-O1", "-D_GLIBCXX_ASSERTIONS",
                 "-fsanitize=address,undefined", "-fno-sanitize-recover=all"],
                 dict([ASAN_RT, UBSAN_RT, LSAN_RT])),
    # assertions on, no sanitizer
    "dbg": (COMMON + HOOKS + STATS + ["-mavx2", "-O1", "-D_GLIBCXX_ASSERTIONS"], {}),
    # assertions on, repo's own allocation failure injector for operator new
    "dbg-oom": (COMMON + HOOKS + STATS + ["-mavx2", "-O1", "-D_GLIBCXX_ASSERTIONS"], {}),
    # release code path
    "rel": (COMMON + HOOKS + STATS + ["-mavx2", "-O2", "-DNDEBUG"], {}),
    "rel-asan": (COMMON + HOOKS + STATS + ["-mavx2", "-O1", "-DNDEBUG",
                 "-fsanitize=address,undefined", "-fno-sanitize-recover=all"],
                 dict([ASAN_RT, UBSAN_RT, LSAN_RT])),
    "rel-tsan": (COMMON + HOOKS + STATS + ["-mavx2", "-O1", "-DNDEBUG", "-fsanitize=thread"],
                 dict([TSAN_RT])),
    "dbg-tsan": (COMMON + HOOKS + STATS + ["-mavx2", "-O1", "-fsanitize=thread"],
                 dict([TSAN_RT])),
    # statistics compiled out: QSBR's statistics mutexes add happens-before edges that would hide a weakened memory order from TSan
    # the release code path without statistics and with the other spin-wait variant (C16: the concurrent harnesses otherwise always have statistics compiled in)
    "rel-nostats": (["-std=c++20", "-pthread", "-fno-omit-frame-pointer", "-g1", "-Wno-deprecated-declarations", "-Wno-attributes",
                     "-DUNODB_SPINLOCK_LOOP_VALUE=2"] + HOOKS + ["-msse4.1", "-O2", "-DNDEBUG"], {}),
    "dbg-nostats-asan": (["-std=c++20", "-pthread", "-fno-omit-frame-pointer", "-g1", "-Wno-deprecated-declarations", "-Wno-attributes",
                          "-DUNODB_SPINLOCK_LOOP_VALUE=2"] + HOOKS + ["-msse4.1", "-O1", "-D_GLIBCXX_ASSERTIONS", "-fsanitize=address,undefined", "-fno-sanitize-recover=all"],
                         dict([ASAN_RT, UBSAN_RT, LSAN_RT])),
    "rel-tsan-nostats": (COMMON + HOOKS + ["-mavx2", "-O1", "-DNDEBUG", "-fsanitize=thread"],
                         dict([TSAN_RT])),
}


def _cfg_matrix():
    """The 16 configurations of C16 (hooks off: the plain library)."""
    out = {}
    for simd in ("avx2", "sse41"):
        for stats in (True, False):
            for asrt in (True, False):
                for spin in (1, 2):
                    name = "cfg-%s-%s-%s-spin%d" % (simd, "stats" if stats else "nostats",
                                                    "assert" if asrt else "ndebug", spin)
                    flags = ["-std=c++20", "-pthread", "-fno-omit-frame-pointer", "-g1",
                             "-Wno-deprecated-declarations", "-Wno-attributes", "-O1",
                             "-DUNODB_SPINLOCK_LOOP_VALUE=%d" % spin,
                             "-mavx2" if simd == "avx2" else "-msse4.1"]
                    if stats:
                        flags.append("-DUNODB_DETAIL_WITH_STATS")
                    flags.append("-D_GLIBCXX_ASSERTIONS" if asrt else "-DNDEBUG")
                    out[name] = (flags, {})
    return out


CONFIGS.update(_cfg_matrix())


def _sha(data):
    return hashlib.sha256(data).hexdigest()


_repo_hash_cache = None


def repo_hash():
    """Hash of every top-level source file of /repo a harness can see."""
    global _repo_hash_cache
    if _repo_hash_cache is not None:
        return _repo_hash_cache
    h = hashlib.sha256()
    for name in sorted(os.listdir(REPO)):
        if name.endswith((".hpp", ".cpp", ".h")):
            p = os.path.join(REPO, name)
            if os.path.isfile(p):
                h.update(name.encode())
                with open(p, "rb") as f:
                    h.update(f.read())
    _repo_hash_cache = h.hexdigest()
    return _repo_hash_cache


def _harness_hash(src):
    h = hashlib.sha256()
    files = [src]
    cdir = os.path.join(HARNESS, "common")
    for root, _dirs, names in os.walk(cdir):
        for n in sorted(names):
            files.append(os.path.join(root, n))
    for p in files:
        h.update(os.path.relpath(p, HARNESS).encode())
        with open(p, "rb") as f:
            h.update(f.read())
    return h.hexdigest()


_cxx_version = None


def cxx_version():
    global _cxx_version
    if _cxx_version is None:
        _cxx_version = subprocess.run([CXX, "--version"], capture_output=True, text=True).stdout.split("\n")[0]
    return _cxx_version


class BuildError(Exception):
    pass


def _compile(src, obj, flags, log):
    cmd = [CXX] + flags + ["-I" + REPO, "-I" + HARNESS, "-c", src, "-o", obj]
    r = subprocess.run(cmd, capture_output=True, text=True)
    with open(log, "a") as f:
        f.write("$ " + " ".join(cmd) + "\n" + r.stdout + r.stderr + "\n")
    if r.returncode != 0:
        errs = [l for l in (r.stdout + r.stderr).split("\n") if "error" in l][:6]
        raise BuildError("compile failed: %s :: %s" % (src, " | ".join(errs)[:1500]))


def _locked(path):
    os.makedirs(os.path.dirname(path), exist_ok=True)
    f = open(path, "w")
    fcntl.flock(f, fcntl.LOCK_EX)
    return f


def _prune(prefix, keep):
    """Remove older cache directories with the same prefix (disk hygiene)."""
    if not os.path.isdir(BUILD):
        return
    for d in os.listdir(BUILD):
        rest = d[len(prefix):]
        if (d.startswith(prefix) and d != keep and len(rest) == 14
                and all(ch in "0123456789abcdef" for ch in rest)):
            p = os.path.join(BUILD, d)
            try:
                # only prune entries untouched for 10 minutes (another check may use them)
                if time.time() - os.path.getmtime(p) > 600:
                    shutil.rmtree(p, ignore_errors=True)
            except OSError:
                pass


MEMCHECK_WRAP = ("valgrind --tool=memcheck --quiet --error-exitcode=97 --exit-on-first-error=yes --leak-check=no "
                 "--undef-value-errors=yes --track-origins=no --num-callers=12 --fair-sched=no")


def build(engine, cfg, extra_flags=(), extra_repo_cpp=(), libs=()):
    """Build harness/<engine>.cpp in configuration cfg. Returns (binary, env).

    "<cfg>+memcheck" is the binary of <cfg> run under valgrind memcheck (the
    runner prepends env["VERIF_WRAP"]): same build, other oracle."""
    if cfg.endswith("+memcheck"):
        binary, env = build(engine, cfg[:-len("+memcheck")], extra_flags, extra_repo_cpp, libs)
        env = dict(env)
        env["VERIF_WRAP"] = MEMCHECK_WRAP
        return binary, env
    if cfg.endswith("+memcheck-addr"):
        # addressability only (reads/writes of freed or never-allocated memory). Definedness checking is off on purpose: an
        # optimistic (OLC) reader legitimately computes on bytes a concurrent writer has not written yet and discards the
        # result when its version check fails, which memcheck would report as a use of uninitialised values.
        binary, env = build(engine, cfg[:-len("+memcheck-addr")], extra_flags, extra_repo_cpp, libs)
        env = dict(env)
        env["VERIF_WRAP"] = MEMCHECK_WRAP.replace("--undef-value-errors=yes", "--undef-value-errors=no")
        return binary, env
    flags, env = CONFIGS[cfg]
    flags = list(flags) + list(extra_flags)
    src = os.path.join(HARNESS, engine + ".cpp")
    rh = repo_hash()
    lib_key = _sha(("|".join([cxx_version(), " ".join(flags), rh, ",".join(extra_repo_cpp)])).encode())[:14]
    bin_key = _sha(("|".join([lib_key, _harness_hash(src), ",".join(libs)])).encode())[:14]
    libdir = os.path.join(BUILD, "lib-%s-%s" % (cfg, lib_key))
    bindir = os.path.join(BUILD, "bin-%s-%s-%s" % (engine, cfg, bin_key))
    binary = os.path.join(bindir, engine)
    if os.path.exists(binary):
        os.utime(bindir, None)
        if os.path.isdir(libdir):
            os.utime(libdir, None)
        return binary, dict(env)
    repo_cpps = list(REPO_CPP) + list(extra_repo_cpp)
    lock = _locked(os.path.join(BUILD, "bin-%s-%s.lock" % (engine, cfg)))
    try:
        if os.path.exists(binary):
            return binary, dict(env)
        os.makedirs(libdir, exist_ok=True)
        os.makedirs(bindir, exist_ok=True)
        log = os.path.join(bindir, "build.log")
        jobs = []
        liblock = _locked(os.path.join(BUILD, "lib-%s.lock" % cfg))
        try:
            with ThreadPoolExecutor(max_workers=8) as ex:
                for c in repo_cpps:
                    obj = os.path.join(libdir, c.replace(".cpp", ".o"))
                    if not os.path.exists(obj):
                        jobs.append(ex.submit(_compile, os.path.join(REPO, c), obj + ".tmp.o", flags, log))
                hobj = os.path.join(bindir, engine + ".o")
                jobs.append(ex.submit(_compile, src, hobj, flags, log))
                for j in jobs:
                    j.result()
            for c in repo_cpps:
                obj = os.path.join(libdir, c.replace(".cpp", ".o"))
                if os.path.exists(obj + ".tmp.o"):
                    os.replace(obj + ".tmp.o", obj)
        finally:
            liblock.close()
        objs = [os.path.join(libdir, c.replace(".cpp", ".o")) for c in repo_cpps]
        cmd = [CXX] + flags + [hobj] + objs + ["-o", binary + ".tmp"] + list(libs)
        r = subprocess.run(cmd, capture_output=True, text=True)
        with open(log, "a") as f:
            f.write("$ " + " ".join(cmd) + "\n" + r.stdout + r.stderr + "\n")
        if r.returncode != 0:
            raise BuildError("link failed: %s\n%s" % (engine, (r.stdout + r.stderr)[-4000:]))
        os.replace(binary + ".tmp", binary)
        _prune("bin-%s-%s-" % (engine, cfg), os.path.basename(bindir))
        _prune("lib-%s-" % cfg, os.path.basename(libdir))
        return binary, dict(env)
    finally:
        lock.close()


def build_many(specs, jobs=4):
    """specs: list of (engine, cfg, kwargs). Builds concurrently; returns dict."""
    out = {}
    with ThreadPoolExecutor(max_workers=jobs) as ex:
        futs = {(e, c): ex.submit(build, e, c, **kw) for (e, c, kw) in specs}
        for k, f in futs.items():
            out[k] = f.result()
    return out
