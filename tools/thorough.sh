cd /verif
for p in "$@"; do
  t0=$(date +%s)
  o=$(VERIF_SEED=1 VERIF_EVIDENCE_DIR=/tmp/thorough-evidence VERIF_REPLAY_DIR=/tmp/thorough-replays ./check run $p thorough 2>&1); rc=$?
  t1=$(date +%s)
  echo "$p thorough exit=$rc wall=$((t1-t0))s :: $(echo "$o" | tail -1)"
  if [ $rc -ne 0 ]; then echo "$o" | grep -E "VIOLATION|key:|what:|INCONCLUSIVE" | head -12; fi
done
