#!/usr/bin/env python3
"""usage: seed_save.py <ID> <property> '<needs>' '<detected-by summary>'  - copies /tmp/seed-<ID>/OUT into /verif/seeded/<ID>/ with meta.json"""
import json, os, shutil, sys
sid, prop, needs, detected = sys.argv[1:5]
src = "/tmp/seed-%s/OUT" % sid
dst = "/verif/seeded/%s" % sid
os.makedirs(dst, exist_ok=True)
for f in os.listdir(src):
    p = os.path.join(src, f)
    if os.path.isfile(p) and os.path.getsize(p) < 400000 and not os.access(p, os.X_OK) or f.endswith(".sh"):
        shutil.copy(p, os.path.join(dst, f))
log = open("/tmp/seedverify-%s.log" % sid).read() if os.path.exists("/tmp/seedverify-%s.log" % sid) else ""
meta = {"id": sid, "breaks_property": prop, "author": "independent sub-agent that saw only the property text and a scratch worktree",
        "needs_to_manifest": needs, "confirmed_by_me": {"what_i_ran": "tools/seed_verify.sh (test suite twice with the change in a scratch worktree, demonstration 3x with and 3x without the change, then my quick checks via VERIF_REPO)", "log": log},
        "detected_by": detected, "base_commit": os.popen("git -C /repo rev-parse --short HEAD").read().strip()}
json.dump(meta, open(os.path.join(dst, "meta.json"), "w"), indent=1)
print("saved", dst, os.listdir(dst))
