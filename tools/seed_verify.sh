#!/bin/bash
# usage: tools/seed_verify.sh <ID> <tier> <check>...   (seeded change by a sub-agent in /tmp/seed-<ID>, patch applied there)
# 1. test suite with the change (twice)  2. demonstration with / without the change  3. my checks against it
set -u
id=$1; tier=$2; shift 2
wt=/tmp/seed-$id
out=/tmp/seedverify-$id.log
: > $out
cd $wt || exit 2
[ -d 3rd_party/googletest/googletest ] || { rmdir 3rd_party/googletest 2>/dev/null; cp -r /repo/3rd_party/googletest 3rd_party/; }
git -C $wt apply --check -R OUT/patch.diff 2>/dev/null || { echo "patch not applied in $wt, applying" >> $out; git -C $wt apply OUT/patch.diff; }
echo "== suite with change" >> $out
rm -rf $wt/_build
(cmake -G Ninja -B _build -DCMAKE_BUILD_TYPE=RelWithDebInfo -DCMAKE_CXX_FLAGS=-Wno-error -DAVX2=ON -DSTATS=ON -DSTANDALONE=OFF > /dev/null 2>&1 && cmake --build _build -j12 2>&1 | tail -1 && for i in 1 2; do ctest --test-dir _build -j8 --timeout 900 2>&1 | grep -E "tests passed|tests failed"; done) >> $out 2>&1
rm -rf $wt/_build
echo "== demo with change" >> $out
(bash OUT/build_demo.sh > /dev/null 2>&1; for i in 1 2 3; do timeout 300 OUT/demo > /dev/null 2>&1; echo "demo exit $?"; done) >> $out 2>&1
git -C $wt apply -R OUT/patch.diff
echo "== demo without change" >> $out
(bash OUT/build_demo.sh > /dev/null 2>&1; for i in 1 2 3; do timeout 300 OUT/demo > /dev/null 2>&1; echo "demo exit $?"; done) >> $out 2>&1
git -C $wt apply OUT/patch.diff
cd /verif
for p in "$@"; do
  o=$(VERIF_REPO=$wt VERIF_EVIDENCE_DIR=/tmp/seed-evidence-$id VERIF_REPLAY_DIR=/tmp/seed-replays-$id ./check run $p $tier 2>&1); rc=$?
  echo "== check $p $tier -> exit $rc" >> $out
  echo "$o" | grep -E "VIOLATION|key:|KNOWN|INCONCLUSIVE|held|violated|inconclusive" | head -8 >> $out
done
rm -rf /tmp/seed-evidence-$id
cat $out
