#!/bin/bash
# usage: tools/mut.sh <name> '<python-expr-edit: file§old§new>' <tier> <prop>...
# Applies a textual break to a scratch worktree of /repo (never /repo itself),
# runs the given checks against it via VERIF_REPO, prints exit codes, removes the worktree.
set -u
name=$1; edit=$2; tier=$3; shift 3
wt=/tmp/mut-$name-$$
git -C /repo worktree add --detach -f "$wt" HEAD >/dev/null 2>&1 || { echo "worktree failed"; exit 2; }
python3 - "$wt" "$edit" <<'PY'
import sys
wt, edit = sys.argv[1], sys.argv[2]
import subprocess
for e in edit.split('@@@'):
    if e.startswith('REVERT:'):
        r = subprocess.run(['git', '-C', wt, 'revert', '--no-commit', e[7:]], capture_output=True, text=True)
        if r.returncode != 0:
            print("REVERT FAILED", r.stderr); sys.exit(3)
        continue
    if e.startswith('CHECKOUT:'):
        _, commit, files = e.split(':', 2)
        r = subprocess.run(['git', '-C', wt, 'checkout', commit, '--'] + files.split(','), capture_output=True, text=True)
        if r.returncode != 0:
            print("CHECKOUT FAILED", r.stderr); sys.exit(3)
        continue
    f, old, new = e.split('§', 2)
    p = wt + '/' + f
    s = open(p).read()
    if s.count(old) < 1:
        print("EDIT FAILED: pattern not found in", f); sys.exit(3)
    s = s.replace(old, new, 1)
    open(p, 'w').write(s)
PY
rc=$?
if [ $rc -ne 0 ]; then git -C /repo worktree remove --force "$wt"; exit 2; fi
for p in "$@"; do
  out=$(VERIF_REPO=$wt VERIF_EVIDENCE_DIR=/tmp/mut-evidence-$$ ./check run $p $tier 2>&1); rc=$?
  echo "== $name $p $tier -> exit $rc"
  echo "$out" | grep -E "VIOLATION|key:|KNOWN|INCONCLUSIVE|held|violated|inconclusive" | head -8
done
git -C /repo worktree remove --force "$wt"
rm -rf /tmp/mut-evidence-$$
