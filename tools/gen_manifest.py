#!/usr/bin/env python3
"""Regenerates /verif/MANIFEST.json from the registry of implemented checks.
Run after adding a check: python3 tools/gen_manifest.py"""
import json
import os
import subprocess
import sys

VERIF = os.path.dirname(os.path.dirname(os.path.abspath(__file__)))
sys.path.insert(0, VERIF)
from vlib import props as P  # noqa: E402

ALL = ["C%02d" % i for i in range(1, 18)]

DESC = {
    "C01": dict(engine="seqmodel", technique="reference-model monitor (byte-string map) over generated histories, ASan+UBSan+LSan, library assertions on; valgrind memcheck (uninitialised-value use) on a sample",
                ref="DESIGN.md 3/C01",
                text="Every call of generated single-threaded histories on db, mutex_db and olc_db (u64 and byte-string keys) is compared with a std::map reference; held value views are re-read after every later operation under ASan. Held on the histories explored, which are measured to cover every node-class transition.",
                note="Trusts std::map, the harness's key-universe generator (prefix-free, inside the D4-free domain) and gcc's sanitizer runtimes."),
    "C02": dict(engine="seqmodel", technique="reference-model monitor: scan output vs. model slice for generated bounds (incl. fall-off bounds at every depth), both buffer address orders",
                ref="DESIGN.md 3/C02",
                text="Each scan/scan_from/scan_range call (both directions, every halting position for small results) is compared entry by entry with the slice of the reference map; bounds include stored keys, neighbours and keys that leave the tree at each depth. Held on the scans explored.",
                note="Trusts std::map ordering with unsigned byte comparison; OLC scans here are single-threaded."),
    "C03": dict(engine="olc_conc", technique="serialized seeded scheduler over hook points + per-key Wing-Gong linearizability checker; free-running TSan/ASan stress",
                ref="DESIGN.md 2.1, 3/C03",
                text="Real threads run real olc_db operations while a token scheduler interleaves them at every lock-word/field/QSBR access; every execution's call/return history is checked for linearizability per key. Depth-1 preemption sweeps of small programs are exhaustive, deeper schedules sampled.",
                note="Sequentially consistent interleavings on x86-TSO; trusts the checker (small, memoised search) and the hook placement."),
    "C04": dict(engine="olc_conc", technique="ASan on every access + hold-set monitor on free notifications + allocation/reachability conservation at quiescent points, under the serialized scheduler; valgrind memcheck (addressability) on the release code path; free-running TSan/ASan stress",
                ref="DESIGN.md 3/C04",
                text="Readers keep value views until their own quiescent state and re-read them; the free hook checks no other thread holds an address inside the block; after each execution live blocks must equal the nodes reachable per dump().",
                note="ASan cannot see reads of recycled memory; the hold-set monitor covers exactly the API-level promise (value bytes)."),
    "C05": dict(engine="qsbr_conc", technique="trace-rule monitor (grace-period rule on free notifications) + reference oracle under ASan, serialized scheduler with state-aware action selection; valgrind memcheck on the release code path; free-running RCU-style stress under ThreadSanitizer (memory-order edges) and ASan",
                ref="DESIGN.md 3/C05",
                text="Every free of a retired block is checked against the set of threads registered at request time that have not been through quiescent/pause/exit since; harness objects carry canaries and are dereferenced by reference holders.",
                note="Boundaries of the rule are taken on the permissive side (call/return stamps); schedules beyond the directed sweeps are sampled."),
    "C06": dict(engine="qsbr_conc", technique="exactly-once counter per retired block, lockstep drain rounds counted by the scheduler, thread-count shadow compared at call boundaries; free-running RCU-style stress under ThreadSanitizer and ASan with exactly-once counters",
                ref="DESIGN.md 3/C06",
                text="Each retired pointer's free notifications are counted (0->1 only), a drain phase in lockstep rounds bounds the delay to three rounds, the reported thread count is compared with a shadow count whenever no membership change is in flight.",
                note="Three-round bound is checked in drain phases and steady-state episodes only, as the property words it."),
    "C07": dict(engine="lock_conc", technique="serialized scheduler over one optimistic_lock with shadow writer/obsolete state and a mid-write-false invariant on protected fields",
                ref="DESIGN.md 3/C07",
                text="2-3 threads perform read sections, upgrades, multi-word writes, unlock and unlock-and-obsolete on one lock; shadow counters decide exclusivity, snapshot consistency of validated reads, upgrade soundness and finality of obsoletion. Depth-1/2 sweeps exhaustive for the 2-thread programs, random walks beyond.",
                note="Sequentially consistent interleavings; memory-order weakening is not observable at this granularity on x86."),
    "C08": dict(engine="oom", technique="fault injection: fail the k-th allocation of every operation for every k, full before/after snapshot comparison + leak accounting via allocation hooks",
                ref="DESIGN.md 3/C08", category="fault_enumeration",
                text="For every operation of generated histories the repo's allocation_failure_injector fails allocation k=1,2,... until the operation succeeds; after each failure entries, scan output, statistics, live-allocation set and QSBR getters must equal the pre-operation snapshot, and the retry must succeed with the model's result.",
                note="One fault per operation (the injector keeps failing until disarmed); trusts the repo's injector to intercept every allocation."),
    "C09": dict(engine="olc_conc", technique="serialized scheduler + per-key linearizability of scan observations (delivered value / absence as pseudo-gets), order/bounds monitor on the visitor sequence",
                ref="DESIGN.md 3/C09",
                text="Scans overlapping writers are judged on the visitor sequence: strict monotonicity, interval membership, and for every key of the interval the delivered value (or its absence) must be consistent with some moment of the scan in a linearization of the point operations on that key.",
                note="Obligations use the permissive stamp boundaries; schedules beyond depth-1 sweeps are sampled."),
    "C10": dict(engine="seqmodel", technique="reference trie predicting node counts/memory from the key set, compared with statistics getters after every operation; allocation hooks vs. reported memory",
                ref="DESIGN.md 3/C10",
                text="After every operation of the C01 histories the public statistics must equal what a path-compressed radix tree of the current key set implies (leaves, inner nodes per class, bytes), counters may only move with a matching structural event, and hooked allocator bytes must equal reported memory.",
                note="Byte-string keys stay in the D4-free domain where the 7-byte prefix cap cannot force extra nodes."),
    "C11": dict(engine="codec", technique="exhaustive/structured sweeps of key_encoder against independent order oracles (successor pairs imply all pairs by transitivity)",
                ref="DESIGN.md 3/C11",
                text="Encodings of adjacent values of each ordered domain are compared with unodb::detail::compare and memcmp: all 8/16-bit values, all 2^32 values of int32/uint32/float in the thorough tier (stride sample + boundary windows in quick), structured and random 64-bit/double, texts over a small alphabet and around maxlen, random tuples.",
                note="64-bit types and double are sampled (boundary windows + random); oracle for floats is an explicit IEEE case analysis using libm nextafter for enumeration."),
    "C12": dict(engine="codec", technique="round-trip monitor decode(encode(v)) over exhaustive/structured domains; fresh vs reset vs grown encoder byte comparison under ASan and valgrind memcheck",
                ref="DESIGN.md 3/C12",
                text="Every value of the 8/16-bit types, all 2^32 patterns of int32/uint32/float in the thorough tier, structured/random 64-bit and double values must decode bit for bit; encoders reused after reset or grown past the inline buffer must produce identical bytes.",
                note="64-bit domains sampled; text is not decoded (no decoder exists)."),
    "C13": dict(engine="mutex_lin", technique="free-running threads with history recording + per-key linearizability checker, lock-handle monitor via interposed pthread_mutex calls, TSan, valgrind memcheck",
                ref="DESIGN.md 3/C13",
                text="2-8 plain threads hammer mutex_db on tiny key spaces in many short rounds; histories are checked per key, every get result's handle ownership is inspected, held values are re-read while writers try, and an interposed mutex monitor decides that no operation other than a hit returns holding the lock.",
                note="OS schedules with perturbation only (which is what the property quantifies over); stamps from one atomic counter (x86 lock xadd)."),
    "C14": dict(engine="olc_conc", technique="logical deadlock/livelock detection in the serialized scheduler (all unfinished threads spinning; fair-phase step budget) + post-execution single-thread sweep",
                ref="DESIGN.md 3/C14",
                text="Every explored execution must finish under fair continuation within a step budget, no state may have all unfinished threads in spin-wait, and after every execution (and every injected allocation failure on olc_db) a single-threaded sweep over all keys and scans must terminate.",
                note="Unbounded liveness restated as bounded progress; starvation under an adversarial infinite schedule is allowed by the library and not flagged."),
    "C15": dict(engine="codec", technique="pairwise monitor: byte equality vs normalised-tuple equality, prefix test both ways, guard-page over-read trap for encode_text, real index round trip",
                ref="DESIGN.md 3/C15",
                text="All pairs of texts over a 3-letter alphabet up to length 5 (6 thorough), texts around maxlen, tuples with a text in the middle and random mixed tuples are compared pairwise; encode_text runs on inputs ending at a PROT_NONE page; prefix-free sets are stored in a real db<key_view> and read back.",
                note="Sampled beyond the small alphabet; index round trip inside the D4-free domain."),
    "C16": dict(engine="cfgdiff", technique="differential execution: same seeded workload in up to 16 build configurations, result-trace and counter hashes compared, assertion aborts are violations; valgrind memcheck (uninitialised-value use) on two corner configurations",
                ref="DESIGN.md 3/C16",
                text="One driver is compiled for {AVX2,SSE4.1}x{stats,no stats}x{assertions,NDEBUG}x{PAUSE,EMPTY}; trace hashes must agree across all, counter hashes across the statistics builds, and every assertion-enabled build must exit cleanly, including OLC scans followed by removals.",
                note="Only schedule-independent outputs are hashed; ARM/NEON and MSVC paths cannot be built here."),
    "C17": dict(engine="qptr", technique="shadow-model monitor (raw pointers) over enumerated and random wrapper op sequences; liveness verdict probed by fork()+quiescent/pause/resume in the child",
                ref="DESIGN.md 3/C17",
                text="All sequences up to length 3 (and random ones up to 60) of wrapper operations on 2-3 qsbr_ptr objects over 2 buffers are compared with raw pointers; after every prefix a forked child calls quiescent()/qsbr_pause() and must abort exactly when a non-null wrapper is alive (assertion builds) or never (NDEBUG).",
                note="Self-assignment excluded as the property states; a live wrapper on a paused thread is unreachable without breaking another precondition."),
}


def main():
    hooks = subprocess.run(["git", "-C", "/repo", "log", "--format=%H %s"], capture_output=True, text=True).stdout.strip().split("\n")
    hook_commits = [l.split()[0] for l in hooks if " verif hooks:" in l]
    checks, na = [], []
    for pid in ALL:
        d = DESC[pid]
        if pid in P.REGISTRY:
            checks.append({
                "property_id": pid,
                "quick_cmd": "./check run %s quick" % pid,
                "thorough_cmd": "./check run %s thorough" % pid,
                "evidence_file": "/verif/evidence/%s.json" % pid,
                "replay_cmd_template": "./check replay {path}",
                "engine": d["engine"],
                "level_claimed": {"category": d.get("category", "exploration"), "text": d["text"], "design_ref": d["ref"]},
                "level_note": d["note"],
                "technique": d["technique"],
            })
        else:
            na.append({"property_id": pid, "reason": "check not built yet in this round (planned engine: %s); not claimed until it exists and is silent on the unchanged tree" % d["engine"]})
    engines = {}
    for pid in ALL:
        if pid in P.REGISTRY:
            engines.setdefault(DESC[pid]["engine"], []).append(pid)
    # secondary uses of an engine by other properties' checks
    for e, ps in {"olc_conc": ["C10", "C16"], "qsbr_conc": ["C16"], "oom": ["C14"], "qsbr_free": ["C05", "C06"], "lincheck_test": ["C03", "C09", "C13"]}.items():
        for pid in ps:
            if pid in P.REGISTRY and pid not in engines.setdefault(e, []):
                engines[e].append(pid)
    for e in engines:
        engines[e].sort()
    kinds = {
        "qsbr_free": "free-running RCU-style stress of the real QSBR under ThreadSanitizer / AddressSanitizer with exactly-once counters",
        "lincheck_test": "self-test of the linearizability checker against brute force (a disagreement makes the run inconclusive)",
        "seqmodel": "single-threaded model-based differential driver (reference map + reference trie), sanitized",
        "olc_conc": "serialized token scheduler on hook points + history oracles; free-running sanitizer stress",
        "qsbr_conc": "serialized scheduler over QSBR actions with trace-rule and reference oracles",
        "lock_conc": "serialized scheduler over one optimistic_lock with shadow state",
        "oom": "allocation-failure enumeration with snapshot comparison",
        "codec": "exhaustive / structured / random sweeps of key_encoder and key_decoder against oracles",
        "mutex_lin": "free-running history recording + linearizability + mutex interposition monitor",
        "cfgdiff": "same workload in many build configurations, hashes compared",
        "qptr": "shadow-model sequences on qsbr_ptr / qsbr_ptr_span with forked liveness probes",
    }
    m = {
        "version": 1,
        "setup_cmd": "./check setup",
        "hooks": {
            "guard": "UNODB_DETAIL_VERIF_HOOKS",
            "enable": "harness translation units and /repo's qsbr.cpp, qsbr_ptr.cpp, art_internal.cpp are compiled directly by /verif/vlib/build.py with -DUNODB_DETAIL_VERIF_HOOKS (plus per-configuration flags); /repo/_build is never used by a check",
            "baseline_off_cmd": "cd /verif && ./check baseline-off",
            "source_commits": hook_commits,
            "add_only": True,
        },
        "engines": [{"name": e, "path": "/verif/harness/%s.cpp" % e, "serves_properties": ps, "kind_free_text": kinds[e]} for e, ps in sorted(engines.items())],
        "checks": checks,
        "not_applicable": na,
        "notes": "Technique family: runtime monitoring and sanitizers. Every check builds its harness from /repo's current working tree (cache keyed by a hash of all /repo sources), runs the real code under generated workloads while oracles watch, writes evidence/<id>.json, and exits 0 / 1 (VIOLATION line, replay file under /verif/replays) / 2 (inconclusive or harness failure). Known findings: /verif/known_findings.json. VERIF_SEED selects the PRNG streams, VERIF_BUDGET scales case counts, VERIF_JOBS the worker processes.",
    }
    with open(os.path.join(VERIF, "MANIFEST.json"), "w") as f:
        json.dump(m, f, indent=1)
    print("MANIFEST.json: %d checks, %d not_applicable" % (len(checks), len(na)))


if __name__ == "__main__":
    main()
