#!/bin/bash
# Line coverage of /repo's sources reached by the harness workloads (gcov, -O0).
# Not a check: a measurement of what the monitors can observe at all. Lines the
# workloads never execute are listed so that gaps are visible; the result is
# written to /verif/coverage/summary.txt (commit it after looking at it).
#   usage: tools/coverage.sh [scale]     scale multiplies the case counts (default 1)
set -u
VERIF=$(cd "$(dirname "$0")/.." && pwd)
REPO=${VERIF_REPO:-/repo}
SCALE=${1:-1}
W=$(mktemp -d /tmp/verif-cov.XXXXXX)
trap 'rm -rf "$W"' EXIT
F="-std=c++20 -pthread -g1 -O0 --coverage -Wno-deprecated-declarations -Wno-attributes -DUNODB_SPINLOCK_LOOP_VALUE=1 -DUNODB_DETAIL_VERIF_HOOKS -DUNODB_DETAIL_WITH_STATS -mavx2 -D_GLIBCXX_ASSERTIONS -I$REPO -I$VERIF/harness"
HS="seqmodel olc_conc qsbr_conc lock_conc codec mutex_lin qptr cfgdiff oom"
for h in $HS; do
  mkdir -p "$W/$h"
  extra=""; [ $h = oom ] && extra="$REPO/test_heap.cpp -ldl"
  ( cd "$W/$h" && g++ $F "$VERIF/harness/$h.cpp" "$REPO/qsbr.cpp" "$REPO/qsbr_ptr.cpp" "$REPO/art_internal.cpp" $extra -o $h 2> build.log || echo "BUILD FAILED $h" ) &
done
wait
n() { echo $(( $1 * SCALE )); }
run() { local h=$1; shift; ( cd "$W/$h" && timeout 3000 ./$h "$@" --out "$W/$h/out.json" > /dev/null 2>&1 ); }
(
  for p in C01 C02 C10; do run seqmodel --seed 3 --first 0 --cases $(n 60) --prop $p --directed; done ) &
( for p in C03 C04 C09 C14; do run olc_conc --seed 3 --first 0 --cases $(n 40) --prop $p --explore 60; done
  run olc_conc --seed 3 --first 0 --cases $(n 30) --prop C03 --mode free --rounds 30 ) &
( for p in C05 C06; do run qsbr_conc --seed 3 --first 0 --cases $(n 300) --prop $p; done ) &
( run lock_conc --seed 3 --first 0 --cases $(n 200) --walks 40 ) &
( for m in order roundtrip prefix; do run codec --seed 3 --first 0 --cases 6 --mode $m --pairs $(n 3000) --textlen 4; done ) &
( run mutex_lin --seed 3 --first 0 --cases $(n 300) ) &
( run qptr --seed 3 --first 0 --cases $(n 3000) --mode random; run qptr --seed 3 --first 0 --cases $(n 2000) --mode enum --len 4 ) &
( run cfgdiff --seed 3 --first 0 --cases $(n 20) --ops 250 --mtops 1500 ) &
( run oom --seed 3 --first 0 --cases $(n 60) --prop C08; run oom --seed 3 --first 0 --cases $(n 30) --prop C14 ) &
wait
for h in $HS; do ( cd "$W/$h" && gcov --json-format -o . $h-*.gcda > /dev/null 2>&1 ); done
mkdir -p "$VERIF/coverage"
python3 - "$W" "$REPO" $HS > "$VERIF/coverage/summary.txt" <<'EOF'
import gzip, json, sys, glob, collections
w, repo = sys.argv[1], sys.argv[2].rstrip("/") + "/"
tot = collections.defaultdict(lambda: collections.defaultdict(int))
per = collections.defaultdict(lambda: collections.defaultdict(set))
for h in sys.argv[3:]:
    for g in glob.glob("%s/%s/*.gcov.json.gz" % (w, h)):
        for f in json.load(gzip.open(g))["files"]:
            name = f["file"]
            if not name.startswith(repo) or name.endswith(("test_heap.hpp", "test_heap.cpp", "verif_hooks.hpp")):
                continue
            for l in f["lines"]:
                tot[name][l["line_number"]] += l["count"]
                if l["count"]:
                    per[name][h].add(l["line_number"])
print("# lines of /repo reached by the harness workloads (gcov -O0, hooks+stats+assertions, all harnesses summed)")
T = Z = 0
for name in sorted(tot):
    z = sorted(n for n, c in tot[name].items() if c == 0)
    T += len(tot[name]); Z += len(z)
    print("%s: %d of %d executable lines reached; never executed: %s" % (name[len(repo):], len(tot[name]) - len(z), len(tot[name]), " ".join(map(str, z)) or "-"))
    print("    by harness: " + ", ".join("%s=%d" % (h, len(s)) for h, s in sorted(per[name].items())))
print("TOTAL: %d of %d executable lines reached (%.1f%%)" % (T - Z, T, 100.0 * (T - Z) / max(T, 1)))
EOF
cat "$VERIF/coverage/summary.txt"
