cd /verif
for seed in "$@"; do
  for p in C01 C02 C03 C04 C05 C06 C07 C08 C09 C10 C11 C12 C13 C14 C15 C16 C17; do
    if [ "$seed" = "1" ]; then ev=/verif/evidence; else ev=/tmp/soak-evidence; fi
    o=$(VERIF_SEED=$seed VERIF_EVIDENCE_DIR=$ev VERIF_REPLAY_DIR=/tmp/soak-replays ./check run $p quick 2>&1); rc=$?
    echo "seed=$seed $p exit=$rc :: $(echo "$o" | tail -1)"
    if [ $rc -ne 0 ]; then echo "$o" | grep -E "VIOLATION|key:|what:|INCONCLUSIVE" | head -12; fi
  done
done
