// E2 qsbr_conc: QSBR alone under the serialized scheduler.
// Actors (qsbr_threads) pick actions online from {take a reference, use, drop,
// retire an object, quiescent state, pause, resume, spawn a thread, exit} with
// weights that depend on the publicly visible QSBR state; every QSBR atomic
// access is a scheduling point (the exit path included).
//   C05  reference oracle: a free while another thread holds a reference taken
//        before the retire; trace rule: a free while a thread that was registered
//        at request time has not been through quiescent/pause/exit since.
//   C06  exactly-once accounting of free notifications per retired block, thread
//        count shadow vs. qsbr_state at call boundaries with no membership change
//        in flight, lockstep drain: freed by the end of the third full round,
//        last thread: two quiescent states leave nothing pending anywhere.
// A case = one episode program seed; per case a set of executions (PCT / random walk).
#include "global.hpp"

#include <csignal>
#include <map>
#include <memory>
#include <thread>
#include <vector>

#include "heap.hpp"
#include "qsbr.hpp"

#include "common/sched.hpp"
#include "common/vh.hpp"

using vh::json;
using vh::rep;
using vh::u64;

namespace {

std::string g_prop = "C05";
u64 g_case = 0, g_exec_seed = 0;
std::string g_exec_desc, g_phase = "idle";

constexpr int NSLOTS = 3;
constexpr int MAXA = 7;  // actors
constexpr u64 MAGIC = 0xC0FFEE1234567890ULL;

struct obj { u64 canary; u64 id; u64 pad[2]; };

enum act { A_TAKE, A_USE, A_DROP, A_RETIRE, A_QUIESCENT, A_PAUSE, A_RESUME, A_SPAWN, A_EXIT, A_COUNT };
const char* act_name[] = {"take", "use", "drop", "retire", "quiescent", "pause", "resume", "spawn", "exit"};

struct actor {
  bool exists{false}, active{false}, paused{false}, exiting{false}, gone{false};
  bool in_q{false}, in_pause{false};
  int sched_id{-1};
  std::vector<obj*> refs;
  int actions_left{0};
  bool at_drain{false};
  u64 q_since_epoch{0};
  std::unique_ptr<unodb::qsbr_thread> thread;
  bool thread_ready{false};
};

struct retire_rec {
  obj* p;
  u64 id;
  int requester;
  u64 time;
  std::vector<int> waiting;  // threads of S not yet discharged
  bool freed{false};
  bool before_drain{true};
  int rounds_seen{0};
  bool ev_aged_in_unregister{false};
};

struct world {
  std::atomic<obj*> slot[NSLOTS];
  actor a[MAXA];
  int nactors{0};
  std::map<obj*, int> live_objs;      // our objects currently allocated -> 0 linked, 1 retired (index+2 into recs)
  std::vector<retire_rec> recs;
  u64 next_id{1};
  int membership_in_flight{0};
  int shadow_count{0};
  bool stop_random{false};
  int spawns_left{0};
  // drain
  int drain_round{0}, drain_turn{0};
  std::vector<int> drain_order;
  int exit_turn{0};
  // observations
  u64 actions{0}, takes{0}, retires{0}, frees_immediate{0}, frees_deferred{0}, frees_orphaned{0}, epoch_changes{0}, count_checks{0}, retire_with_others_registered{0}, retire_requester_left{0};
  u64 trace_hash{77};
  std::vector<std::string> trace;
  bool violated{false};
  std::string vprop, vkey, vwhat;
  json vwitness;
};

world* W = nullptr;
thread_local int tl_actor = -1;
thread_local bool tl_allocating_obj = false;
u64 g_events[unodb::verif::EVENT_KIND_COUNT];

void violate(const std::string& prop, const std::string& key, const std::string& what, json w = json::object()) {
  if (W == nullptr || W->violated) return;
  W->violated = true;
  W->vprop = prop;
  W->vkey = key;
  W->vwhat = what;
  W->vwitness = std::move(w);
}

void tr(int t, const std::string& s) {
  if (W->trace.size() < 400) W->trace.push_back("A" + std::to_string(t) + ":" + s);
  W->trace_hash = vh::hash_combine(W->trace_hash, vh::hash_str(s, static_cast<u64>(t)));
}

// ------------------------------------------------------------------ hooks
void alloc_cb(void* p, std::size_t) noexcept {
  if (W != nullptr && tl_allocating_obj) W->live_objs[static_cast<obj*>(p)] = 0;
}

void dealloc_cb(void* pv) noexcept {
  if (W == nullptr) return;
  auto* p = static_cast<obj*>(pv);
  const auto it = W->live_objs.find(p);
  if (it == W->live_objs.end()) {
    // not one of ours that is currently allocated: a second free of a retired object?
    for (const auto& r : W->recs)
      if (r.p == p && r.freed) { violate("C06", "free/twice", "a retired block was freed a second time", json::object().set("object", r.id)); return; }
    return;
  }
  if (it->second == 0) {
    violate("C06", "free/never-requested", "a block that was never handed to deferred deallocation was freed", json::object().set("object", p->id));
    W->live_objs.erase(it);
    return;
  }
  auto& r = W->recs[static_cast<std::size_t>(it->second - 2)];
  W->live_objs.erase(it);
  if (r.freed) { violate("C06", "free/twice", "a retired block was freed a second time", json::object().set("object", r.id)); return; }
  r.freed = true;
  const int me = tl_actor;
  // reference oracle
  for (int t = 0; t < W->nactors; ++t) {
    if (t == me) continue;
    for (const obj* q : W->a[t].refs)
      if (q == p) {
        violate("C05", std::string("free/while-reference-held") + (r.ev_aged_in_unregister ? "+ORPHANS_AGED_IN_UNREGISTER" : ""),
                "a retired block was freed while another thread still holds a reference taken before the retire",
                json::object().set("object", r.id).set("holder", t).set("freeing_thread", me).set("requester", r.requester));
        return;
      }
  }
  // trace rule
  for (const int t : r.waiting) {
    const auto& a = W->a[t];
    if (a.in_q || a.in_pause || a.exiting || a.paused || a.gone) continue;
    violate("C05", "free/before-grace-period", "a retired block was freed although a thread registered at request time has not been through a quiescent state, pause or exit since",
            json::object().set("object", r.id).set("undischarged_thread", t).set("freeing_thread", me).set("requester", r.requester));
    return;
  }
  if (me == r.requester && W->shadow_count <= 1 && r.time + 40 > vs::S().now()) ++W->frees_immediate;
  else if (W->a[r.requester].gone || W->a[r.requester].paused) ++W->frees_orphaned;
  else ++W->frees_deferred;
}

void event_cb(int kind, const void*) noexcept {
  if (kind >= 0 && kind < unodb::verif::EVENT_KIND_COUNT) ++g_events[kind];
  if (W != nullptr && kind == unodb::verif::EV_EPOCH_ADVANCED) ++W->epoch_changes;
}

// ------------------------------------------------------------------ helpers
obj* new_obj() {
  tl_allocating_obj = true;
  auto* p = static_cast<obj*>(unodb::detail::allocate_aligned(sizeof(obj)));
  tl_allocating_obj = false;
  p->canary = MAGIC;
  p->id = W->next_id++;
  return p;
}

void discharge(int t) {
  const u64 now = vs::S().now();
  for (auto& r : W->recs) {
    if (r.freed || r.time >= now) continue;
    r.waiting.erase(std::remove(r.waiting.begin(), r.waiting.end(), t), r.waiting.end());
  }
}

void check_count(const char* where) {
  if (W->membership_in_flight != 0) return;
  unodb::qsbr_state::type st;
  {
    const vs::scheduler::quiet q;
    st = unodb::qsbr::instance().get_state();
  }
  ++W->count_checks;
  const auto reported = unodb::qsbr_state::get_thread_count(st);
  if (static_cast<int>(reported) != W->shadow_count)
    violate("C06", "thread-count/mismatch", "the registered-thread count QSBR reports differs from started-or-resumed minus paused-or-exited threads while no membership change is in flight",
            json::object().set("reported", static_cast<u64>(reported)).set("expected", W->shadow_count).set("where", where));
}

void use_refs(int t) {
  for (const obj* p : W->a[t].refs)
    if (p->canary != MAGIC) violate("C05", "use/garbled-object", "an object reached through a held reference no longer has its canary", json::object().set("thread", t));
}

void do_quiescent(int t) {
  auto& a = W->a[t];
  a.refs.clear();
  a.in_q = true;
  unodb::this_thread().quiescent();
  a.in_q = false;
  discharge(t);
}

void actor_main(int t, int sched_id);

void do_spawn(int t) {
  const int n = W->nactors;
  if (n >= MAXA) return;
  auto& c = W->a[n];
  c.exists = true;
  c.actions_left = 3 + static_cast<int>(vs::S().now() % 5);
  ++W->nactors;
  ++W->membership_in_flight;
  const int id = vs::S().spawn_slot();
  c.sched_id = id;
  c.thread = std::make_unique<unodb::qsbr_thread>([n, id] { actor_main(n, id); });
  c.thread_ready = true;
  // registered when the constructor has returned in the parent
  c.active = true;
  ++W->shadow_count;
  --W->membership_in_flight;
  vs::S().activate(id);
  tr(t, "spawn A" + std::to_string(n));
}

// state-aware action choice
int choose(int t, vh::rng& r) {
  auto& a = W->a[t];
  if (a.paused) return A_RESUME;
  unodb::qsbr_state::type st;
  {
    const vs::scheduler::quiet q;
    st = unodb::qsbr::instance().get_state();
  }
  const auto count = unodb::qsbr_state::get_thread_count(st);
  const auto prev = unodb::qsbr_state::get_threads_in_previous_epoch(st);
  int w[A_COUNT] = {14, 6, 8, 18, 22, 8, 0, 4, 5};
  if (a.actions_left <= 0) return -1;  // budget used up: go to the drain phase
  if (W->spawns_left <= 0 || W->nactors >= MAXA) w[A_SPAWN] = 0;
  if (prev == 1 && a.q_since_epoch == 0) { w[A_PAUSE] += 25; w[A_EXIT] += 12; w[A_QUIESCENT] += 10; }  // I would advance the epoch by leaving
  if (prev == 0 && count > 0) {  // epoch change in progress (somebody else is the changer)
    w[A_SPAWN] *= 6;
    w[A_PAUSE] += 15;
    w[A_EXIT] += 8;
    // leaving now with requests of the previous interval races with the changer's orphan hand-over
    if (!unodb::this_thread().previous_interval_requests_empty()) { w[A_PAUSE] += 80; w[A_EXIT] += 30; }
    else if (!unodb::this_thread().current_interval_requests_empty()) { w[A_PAUSE] += 30; w[A_EXIT] += 10; }
  }
  if (count <= 2) w[A_SPAWN] *= 3;
  bool any_pending = false;
  for (const auto& rc : W->recs) if (!rc.freed) any_pending = true;
  if (any_pending) { w[A_QUIESCENT] += 10; w[A_PAUSE] += 6; w[A_EXIT] += 3; }
  int total = 0;
  for (const int x : w) total += x;
  auto pick = static_cast<int>(r.below(static_cast<u64>(total)));
  for (int i = 0; i < A_COUNT; ++i) { if (pick < w[i]) return i; pick -= w[i]; }
  return A_QUIESCENT;
}

void perform(int t, int action, vh::rng& r) {
  auto& a = W->a[t];
  ++W->actions;
  --a.actions_left;
  switch (action) {
    case A_TAKE: {
      const auto s = r.below(NSLOTS);
      vs::S().op_boundary();
      obj* p = W->slot[s].load(std::memory_order_acquire);
      if (p != nullptr) {
        if (p->canary != MAGIC) return violate("C05", "take/garbled-object", "an object reachable from a shared slot no longer has its canary", json::object().set("thread", t));
        a.refs.push_back(p);
        ++W->takes;
      }
      tr(t, "take s" + std::to_string(s));
      break;
    }
    case A_USE:
      vs::S().op_boundary();
      use_refs(t);
      tr(t, "use");
      break;
    case A_DROP:
      a.refs.clear();
      tr(t, "drop");
      break;
    case A_RETIRE: {
      const auto s = r.below(NSLOTS);
      obj* n = new_obj();
      vs::S().harness_write();
      obj* p = W->slot[s].exchange(n, std::memory_order_acq_rel);  // unlink
      if (p == nullptr) break;
      a.refs.erase(std::remove(a.refs.begin(), a.refs.end(), p), a.refs.end());
      retire_rec rc{p, p->id, t, vs::S().now(), {}, false, true, 0, false};
      for (int o = 0; o < W->nactors; ++o)
        if (o != t && W->a[o].active && !W->a[o].paused && !W->a[o].exiting && !W->a[o].gone) rc.waiting.push_back(o);
      if (!rc.waiting.empty()) ++W->retire_with_others_registered;
      W->recs.push_back(rc);
      W->live_objs[p] = static_cast<int>(W->recs.size()) + 1;
      ++W->retires;
      tr(t, "retire s" + std::to_string(s) + " o" + std::to_string(p->id));
      const u64 ev_before = g_events[unodb::verif::EV_ORPHANS_AGED_IN_UNREGISTER];
      (void)ev_before;
      unodb::this_thread().on_next_epoch_deallocate(p
#ifdef UNODB_DETAIL_WITH_STATS
                                                    ,
                                                    sizeof(obj)
#endif
#ifndef NDEBUG
                                                        ,
                                                    nullptr
#endif
      );
      break;
    }
    case A_QUIESCENT:
      tr(t, "quiescent");
      do_quiescent(t);
      ++a.q_since_epoch;
      break;
    case A_PAUSE:
      a.refs.clear();
      tr(t, "pause");
      ++W->membership_in_flight;
      a.in_pause = true;
      --W->shadow_count;  // counted out from the call on
      unodb::this_thread().qsbr_pause();
      a.in_pause = false;
      a.paused = true;
      --W->membership_in_flight;
      discharge(t);
      break;
    case A_RESUME:
      tr(t, "resume");
      ++W->membership_in_flight;
      unodb::this_thread().qsbr_resume();
      a.paused = false;
      ++W->shadow_count;  // counted in once it has returned
      --W->membership_in_flight;
      a.q_since_epoch = 0;
      break;
    case A_SPAWN:
      --W->spawns_left;
      do_spawn(t);
      break;
    default:
      break;
  }
}

void begin_exit(int t) {
  auto& a = W->a[t];
  a.refs.clear();
  if (!a.paused) { --W->shadow_count; }
  a.exiting = true;
  ++W->membership_in_flight;
  tr(t, "exit");
}

int live_actors() {
  int n = 0;
  for (int i = 0; i < W->nactors; ++i) if (W->a[i].exists && !W->a[i].exiting && !W->a[i].gone) ++n;
  return n;
}

void actor_main(int t, int sched_id) {
  tl_actor = t;
  vs::S().thread_start(sched_id);
  auto& a = W->a[t];
  vh::rng r(vh::hash_combine(g_exec_seed, static_cast<u64>(t) * 977 + 13));
  bool exited_early = false;
  while (!W->stop_random && !W->violated) {
    vs::S().op_boundary();
    check_count("before action");
    if (W->violated) break;
    const int action = choose(t, r);
    if (action < 0) break;
    if (action == A_EXIT) { exited_early = true; break; }
    perform(t, action, r);
    if (W->actions >= 80) W->stop_random = true;
  }
  if (exited_early && !W->violated && !W->stop_random) {
    begin_exit(t);
    return;  // QSBR unregisters in the thread_local destructor
  }
  // ---- drain phase (lockstep rounds among the actors that are still there)
  a.refs.clear();
  if (!W->violated && a.paused) perform(t, A_RESUME, r);
  a.at_drain = true;
  vs::S().harness_write();
  vs::S().block_until([] {
    // every other actor is either completely gone (no membership change in flight) or waiting here
    for (int i = 0; i < W->nactors; ++i) if (W->a[i].exists && !W->a[i].gone && !(W->a[i].at_drain && !W->a[i].exiting)) return false;
    return W->membership_in_flight == 0;
  });
  if (W->drain_order.empty())
    for (int i = 0; i < W->nactors; ++i) if (W->a[i].at_drain && !W->a[i].gone && !W->a[i].exiting) W->drain_order.push_back(i);
  const int nd = static_cast<int>(W->drain_order.size());
  int my_pos = 0;
  for (int i = 0; i < nd; ++i) if (W->drain_order[static_cast<std::size_t>(i)] == t) my_pos = i;
  if (!W->violated) {
    g_phase = "drain";
    for (int round = 0; round < 3 && !W->violated; ++round) {
      vs::S().block_until([round, my_pos] { return W->violated || (W->drain_round == round && W->drain_turn == my_pos); });
      if (W->violated) break;
      check_count("drain round");
      do_quiescent(t);
      ++W->drain_turn;
      if (W->drain_turn == nd) {
        W->drain_turn = 0;
        ++W->drain_round;
        for (auto& rc : W->recs) if (rc.before_drain) ++rc.rounds_seen;
        if (W->drain_round == 3) {
          for (const auto& rc : W->recs)
            if (rc.before_drain && !rc.freed) {
              violate("C06", "drain/not-freed-after-three-rounds", "a retired block is still pending after three consecutive rounds in which every registered thread passed through a quiescent state",
                      json::object().set("object", rc.id).set("requester", rc.requester).set("requester_gone", W->a[rc.requester].gone).set("registered_threads_in_rounds", nd));
              break;
            }
          rep().count("drains_completed");
        }
      }
      vs::S().harness_write();
    }
  }
  // ---- shutdown: exit one by one; the last one first passes two quiescent states
  vs::S().block_until([my_pos, nd, t] {
    if (W->violated) return true;
    if (W->drain_round < 3 || W->exit_turn != my_pos) return false;
    if (my_pos != nd - 1) return true;
    // the last one waits until all the others have completely unregistered
    for (int i = 0; i < W->nactors; ++i) if (i != t && W->a[i].exists && !W->a[i].gone) return false;
    return true;
  });
  if (!W->violated && my_pos == nd - 1) {
    g_phase = "shutdown";
    check_count("last thread");
    do_quiescent(t);
    do_quiescent(t);
    bool empty;
    {
      const vs::scheduler::quiet q;
      auto& Q = unodb::qsbr::instance();
      empty = Q.previous_interval_orphaned_requests_empty() && Q.current_interval_orphaned_requests_empty() &&
              unodb::this_thread().previous_interval_requests_empty() && unodb::this_thread().current_interval_requests_empty();
    }
    if (!empty) violate("C06", "shutdown/requests-pending", "requests are still pending after all but one thread unregistered and the remaining thread passed two quiescent states");
    for (const auto& rc : W->recs)
      if (!rc.freed) { violate("C06", "shutdown/block-never-freed", "a retired block was never freed (lost request)", json::object().set("object", rc.id).set("requester", rc.requester)); break; }
    rep().count("shutdowns_checked");
  }
  begin_exit(t);
  ++W->exit_turn;
  vs::S().harness_write();
}

void thread_gone(int sched_id) {
  if (W == nullptr) return;
  for (int i = 0; i < W->nactors; ++i)
    if (W->a[i].sched_id == sched_id && W->a[i].exiting && !W->a[i].gone) {
      W->a[i].gone = true;
      W->a[i].exiting = false;
      --W->membership_in_flight;
      discharge(i);
    }
}

struct exec_result { u64 steps{0}, switches{0}, intra{0}, signature{0}; bool violated{false}; };

exec_result execute(u64 seed, const vs::params& prm, int initial_actors, int spawns) {
  world w;
  W = &w;
  g_exec_seed = seed;
  for (auto& e : g_events) e = 0;
  rep().progress_case(g_case, g_exec_desc.c_str());
  auto& S = vs::S();
  g_phase = "run";
  w.spawns_left = spawns;
  S.begin(seed, prm);
  unodb::this_thread().qsbr_pause();
  for (auto& sl : w.slot) sl.store(new_obj());
  for (int i = 0; i < initial_actors; ++i) {
    tl_actor = -1;
    auto& c = w.a[w.nactors];
    c.exists = true;
    vh::rng r0(vh::hash_combine(seed, static_cast<u64>(i)));
    c.actions_left = 4 + static_cast<int>(r0.below(8));
    const int n = w.nactors++;
    ++w.membership_in_flight;
    const int id = S.spawn_slot();
    c.sched_id = id;
    c.thread = std::make_unique<unodb::qsbr_thread>([n, id] { actor_main(n, id); });
    c.thread_ready = true;
    c.active = true;
    ++w.shadow_count;
    --w.membership_in_flight;
    S.activate(id);
  }
  // join everything that gets created
  for (int j = 0; j < w.nactors; ++j) {
    S.block_until([j] { return W->a[j].thread_ready; });
    S.join(w.a[j].sched_id, *w.a[j].thread);
  }
  g_phase = "teardown";
  unodb::this_thread().qsbr_resume();
  unodb::this_thread().quiescent();
  unodb::this_thread().quiescent();
  exec_result res{S.steps, S.nswitches, S.intra_op_switches, S.signature, w.violated};
  const auto sw = S.switches_json(400);
  S.end();
  if (!w.violated) {
    for (const auto& rc : w.recs)
      if (!rc.freed) { violate("C06", "end/block-never-freed", "a retired block was never freed (lost request)", json::object().set("object", rc.id).set("requester", rc.requester)); break; }
    auto& Q = unodb::qsbr::instance();
    if (!w.violated && (!Q.previous_interval_orphaned_requests_empty() || !Q.current_interval_orphaned_requests_empty()))
      violate("C06", "end/orphans-pending", "orphaned requests are still pending at the end of the episode");
  }
  // free what is still linked
  W = nullptr;  // the harness's own cleanup is not an event
  for (auto& sl : w.slot) { obj* p = sl.exchange(nullptr); if (p != nullptr) { w.live_objs.erase(p); unodb::detail::free_aligned(p); } }
  W = &w;
  rep().evaluation();
  rep().count("episodes");
  rep().count("actions", w.actions);
  rep().count("takes", w.takes);
  rep().count("retires", w.retires);
  rep().count("retires_with_other_threads_registered", w.retire_with_others_registered);
  rep().count("frees_immediate_single_thread", w.frees_immediate);
  rep().count("frees_deferred", w.frees_deferred);
  rep().count("frees_of_orphaned_requests", w.frees_orphaned);
  rep().count("epoch_changes", w.epoch_changes);
  rep().count("thread_count_checks", w.count_checks);
  rep().count("threads_spawned", static_cast<u64>(w.nactors));
  rep().count("steps", res.steps);
  rep().count("context_switches", res.switches);
  rep().count("intra_operation_switches", res.intra);
  rep().count("ev_orphans_aged_in_unregister", g_events[unodb::verif::EV_ORPHANS_AGED_IN_UNREGISTER]);
  {
    static const char* kn[] = {"LOCK_LOAD_ACQ", "LOCK_LOAD_RLX", "LOCK_CAS", "LOCK_UNLOCK", "LOCK_OBSOLETE", "FIELD_LOAD", "FIELD_STORE", "QSBR_STATE_LOAD", "QSBR_STATE_CAS",
                               "QSBR_STATE_FETCH_SUB", "ORPHAN_LOAD", "ORPHAN_CAS", "ORPHAN_XCHG", "SPIN", "RESTART", "ORPHAN_TAIL_STORE"};
    for (int k = 7; k < 16; ++k) if (S.kind_counts[static_cast<std::size_t>(k)] != 0) rep().count(std::string("hook.") + kn[k], S.kind_counts[static_cast<std::size_t>(k)]);
  }
  const bool nontrivial = w.retire_with_others_registered > 0 && (w.frees_deferred + w.frees_orphaned) > 0 && (g_prop != "C06" || w.frees_orphaned > 0 || g_events[unodb::verif::EV_ORPHANS_AGED_IN_UNREGISTER] > 0);
  if (nontrivial) rep().nontrivial(vh::hash_combine(w.trace_hash, res.signature));
  if (w.violated) {
    json t = json::array();
    for (const auto& s : w.trace) t.push(s);
    w.vwitness.set("execution", g_exec_desc).set("action_trace", t).set("switches_step_from_to_kind", sw).set("initial_actors", initial_actors);
    rep().violation(w.vprop, "qsbr_conc/" + w.vkey, w.vwhat, std::move(w.vwitness));
  } else if (g_case < 2 && rep().cur_case == g_case) {
    json t = json::array();
    for (std::size_t i = 0; i < w.trace.size() && i < 40; ++i) t.push(w.trace[i]);
    rep().sample(json::object().set("execution", g_exec_desc).set("action_trace", t), 3);
  }
  W = nullptr;
  return res;
}

void crash_context(int sig) {
  static bool once = false;
  if (!once && W != nullptr) {
    once = true;
    json t = json::array();
    for (const auto& s : W->trace) t.push(s);
    json wj = json::object().set("case", g_case).set("execution", g_exec_desc).set("phase", g_phase).set("action_trace", t).set("switches_step_from_to_kind", vs::S().switches_json(400));
    const auto text = "\nVERIF-CRASH-CONTEXT: " + wj.dump() + "\n";
    (void)!write(2, text.data(), text.size());
  }
  signal(sig, SIG_DFL);
  raise(sig);
}

void fatal_handler(const std::string& kind, const std::string& what) {
  json wj = json::object().set("execution", g_exec_desc).set("phase", g_phase).set("scheduler", what);
  if (W != nullptr) { json t = json::array(); for (const auto& s : W->trace) t.push(s); wj.set("action_trace", t); }
  wj.set("switches_step_from_to_kind", vs::S().switches_json(400));
  rep().violation(kind == "harness-stuck" ? "HARNESS" : "C06", "qsbr_conc/" + kind, "scheduler verdict: " + kind + " during phase '" + g_phase + "' (" + what + ")", std::move(wj));
  if (kind == "harness-stuck") rep().inconclusive("scheduler: harness-stuck: " + what);
  rep().set_resume(g_case + 1);
  rep().finish();
}

}  // namespace

int main(int argc, char** argv) {
  const vh::args a(argc, argv);
  rep().init(a, "qsbr_conc");
  g_prop = a.str("prop", "C05");
  unodb::verif::on_alloc.store(alloc_cb);
  unodb::verif::on_dealloc.store(dealloc_cb);
  unodb::verif::on_event.store(event_cb);
  vs::install_hooks();
  vs::S().on_fatal = fatal_handler;
  vs::S().on_thread_gone = thread_gone;
  signal(SIGABRT, crash_context);
  signal(SIGSEGV, crash_context);
  const vh::case_range cr(a);
  const u64 execs = a.num("execs", 40);
  for (u64 c = cr.begin; c < cr.end; ++c) {
    g_case = c;
    vh::rng r(vh::case_seed(rep().seed, c, 0x95B));
    const int actors = 2 + static_cast<int>(r.below(3));
    const int spawns = static_cast<int>(r.below(3));
    bool bad = false;
    for (u64 k = 0; k < execs && !bad; ++k) {
      vs::params q;
      vh::rng rr(vh::case_seed(rep().seed, c, 5000 + k));
      if (k % 3 == 2) {
        q.strat = vs::strategy::RANDOM;
        q.switch_prob = 0.05 + 0.1 * static_cast<double>(rr.below(3));
        g_exec_desc = "random walk " + std::to_string(k);
      } else {
        q.strat = vs::strategy::PCT;
        q.priority_order.push_back(0);
        const auto d = rr.below(5);
        for (u64 j = 0; j < d; ++j) q.changes.push_back({-1, 1 + rr.below(250)});
        g_exec_desc = "pct d=" + std::to_string(d) + " #" + std::to_string(k);
        if (k % 3 == 1) {
          // preemptions aimed at the rare windows: right before orphan-list and state-word updates
          using namespace unodb::verif;
          const double pr = 0.05 + 0.1 * static_cast<double>(rr.below(3));
          q.kind_demote = {{ORPHAN_XCHG, pr}, {ORPHAN_CAS, pr}, {ORPHAN_TAIL_STORE, pr}, {QSBR_STATE_CAS, pr / 2}, {QSBR_STATE_FETCH_SUB, pr / 2}};
          g_exec_desc += " +kind-demote";
        }
      }
      const auto e = execute(vh::case_seed(rep().seed, c, 100 + k), q, actors, spawns);
      bad = e.violated;
    }
    rep().count("programs");
    if (bad) { rep().set_resume(c + 1); break; }
  }
  rep().finish();
  return 0;
}
