// Self-test of the linearizability checker: random small single-key histories,
// verdict of vl::checker compared with a brute-force search over all
// permutations that respect real-time order. A disagreement means the oracle of
// C03 / C09 / C13 cannot be trusted: reported as inconclusive, never as a verdict
// on unodb.
#include <algorithm>
#include <numeric>

#include "common/lincheck.hpp"
#include "common/vh.hpp"

using vh::rep;
using vh::u64;

namespace {

bool brute(const std::vector<vl::op>& ops, u64 initial) {
  std::vector<int> perm(ops.size());
  std::iota(perm.begin(), perm.end(), 0);
  do {
    bool ok = true;
    // real-time order: if a returned before b was called, a must come first
    for (std::size_t i = 0; i < perm.size() && ok; ++i)
      for (std::size_t j = i + 1; j < perm.size() && ok; ++j)
        if (ops[static_cast<std::size_t>(perm[j])].ret < ops[static_cast<std::size_t>(perm[i])].call) ok = false;
    u64 state = initial;
    for (std::size_t i = 0; i < perm.size() && ok; ++i) {
      const auto& o = ops[static_cast<std::size_t>(perm[i])];
      if (o.kind == vl::INSERT) { if (o.ok) { ok = state == 0; state = o.value; } else ok = state != 0; }
      else if (o.kind == vl::REMOVE) { if (o.ok) { ok = state != 0; state = 0; } else ok = state == 0; }
      else if (o.kind == vl::CLEAR) { state = 0; }
      else { ok = o.ok ? (state != 0 && state == o.value) : state == 0; }
    }
    if (ok) return true;
  } while (std::next_permutation(perm.begin(), perm.end()));
  return false;
}

}  // namespace

int main(int argc, char** argv) {
  const vh::args a(argc, argv);
  rep().init(a, "lincheck_test");
  const vh::case_range cr(a);
  for (u64 c = cr.begin; c < cr.end; ++c) {
    vh::rng r(vh::case_seed(rep().seed, c, 0x11C));
    const auto n = 1 + r.below(7);
    const u64 initial = r.chance(0.5) ? 0 : 1000;
    // generate a plausible history by simulating a random linearization, then perturb some results
    std::vector<vl::op> ops;
    u64 clock = 1, state = initial, next_val = 1;
    std::vector<u64> values{1000};
    for (u64 i = 0; i < n; ++i) {
      vl::op o;
      o.kind = static_cast<int>(r.below(3));
      if (r.chance(0.12)) o.kind = vl::CLEAR;
      o.thread = static_cast<int>(r.below(3));
      o.call = clock + r.below(6);
      o.ret = o.call + 1 + r.below(12);
      clock += r.below(5);
      if (o.kind == vl::INSERT) { o.value = next_val++; values.push_back(o.value); o.ok = state == 0; if (o.ok) state = o.value; }
      else if (o.kind == vl::REMOVE) { o.ok = state != 0; if (o.ok) state = 0; }
      else if (o.kind == vl::CLEAR) { o.ok = true; state = 0; }
      else { o.ok = state != 0; o.value = state; }
      if (o.kind != vl::CLEAR && r.chance(0.25)) o.ok = !o.ok;
      if (o.kind == vl::GET && o.ok && (o.value == 0 || r.chance(0.2))) o.value = r.pick(values);
      ops.push_back(o);
    }
    // distinct stamps
    for (std::size_t i = 0; i < ops.size(); ++i) { ops[i].call = ops[i].call * 16 + i; ops[i].ret = ops[i].ret * 16 + 8 + i; }
    const auto v = vl::checker::check(ops, initial);
    const bool b = brute(ops, initial);
    rep().evaluation();
    if (b) rep().count("linearizable"); else rep().count("not_linearizable");
    if (v.inconclusive || v.linearizable != b) {
      vh::json h = vh::json::array();
      for (const auto& o : ops) h.push(o.to_json());
      rep().violation("HARNESS", "lincheck/disagrees-with-brute-force", "linearizability checker disagrees with brute force", vh::json::object().set("history", h).set("initial", initial).set("checker", v.linearizable).set("brute_force", b));
    }
    rep().nontrivial(vh::hash_combine(c, n));
  }
  rep().finish();
  return 0;
}
