// E1 seqmodel: single-threaded model-based differential driver.
//   C01  every point operation vs. a byte-string map; held value views stay intact
//   C02  every scan vs. the model's slice (bounds incl. fall-off at every depth)
//   C10  statistics / memory accounting vs. the reference trie of the key set,
//        allocator bytes (hooks) vs. reported memory, nothing left after destruction
// over {db, mutex_db, olc_db} x {uint64, key_view}. A case = one history.
//   --prop C01|C02|C10   which property's counts/evaluations this run reports
//   --combo <0..5|all>   class x key kind (default: case index mod 6)
#include "global.hpp"

#include <sys/wait.h>
#include <unistd.h>

#include <condition_variable>
#include <mutex>
#include <optional>
#include <set>
#include <sstream>
#include <string>
#include <vector>

#include "art.hpp"
#include "mutex_art.hpp"
#include "olc_art.hpp"
#include "qsbr.hpp"

#include "common/model.hpp"
#include "common/universe.hpp"
#include "common/vh.hpp"

using vh::json;
using vh::rep;
using vh::u64;
using vm::bytes;

namespace {

std::string g_prop = "C01";

template <class K> struct keyconv;
template <> struct keyconv<std::uint64_t> {
  static std::uint64_t to(const bytes& b) { return vm::key_u64(b); }
  static constexpr const char* name = "u64";
};
template <> struct keyconv<unodb::key_view> {
  static unodb::key_view to(const bytes& b) { return {reinterpret_cast<const std::byte*>(b.data()), b.size()}; }
  static constexpr const char* name = "key_view";
};

// copy the bytes behind a value view (std::span or qsbr_ptr_span) without walking the
// debug-tracked qsbr_ptr byte by byte
template <class View>
bytes copy_view(const View& v) {
  if constexpr (requires { v.data(); }) {
    return bytes(reinterpret_cast<const char*>(v.data()), v.size());
  } else {
    const std::size_t n = v.size();
    if (n == 0) return bytes();
    const std::byte* p = v.begin().get();
    return bytes(reinterpret_cast<const char*>(p), n);
  }
}

inline unodb::value_view vv(const bytes& v) { return {reinterpret_cast<const std::byte*>(v.data()), v.size()}; }

template <class Db> struct dbinfo;
template <class K> struct dbinfo<unodb::db<K, unodb::value_view>> {
  static constexpr const char* name = "db";
  static constexpr bool olc = false, mutex = false;
  using key = K;
  using leaf = unodb::detail::leaf_type<K>;
  static constexpr std::size_t isz[4] = {sizeof(unodb::detail::inode_4<K, unodb::value_view>), sizeof(unodb::detail::inode_16<K, unodb::value_view>), sizeof(unodb::detail::inode_48<K, unodb::value_view>), sizeof(unodb::detail::inode_256<K, unodb::value_view>)};
};
template <class K> struct dbinfo<unodb::mutex_db<K, unodb::value_view>> {
  static constexpr const char* name = "mutex_db";
  static constexpr bool olc = false, mutex = true;
  using key = K;
  using leaf = unodb::detail::leaf_type<K>;
  static constexpr std::size_t isz[4] = {sizeof(unodb::detail::inode_4<K, unodb::value_view>), sizeof(unodb::detail::inode_16<K, unodb::value_view>), sizeof(unodb::detail::inode_48<K, unodb::value_view>), sizeof(unodb::detail::inode_256<K, unodb::value_view>)};
};
template <class K> struct dbinfo<unodb::olc_db<K, unodb::value_view>> {
  static constexpr const char* name = "olc_db";
  static constexpr bool olc = true, mutex = false;
  using key = K;
  using leaf = unodb::detail::olc_leaf_type<K, unodb::value_view>;
  static constexpr std::size_t isz[4] = {sizeof(unodb::detail::olc_inode_4<K, unodb::value_view>), sizeof(unodb::detail::olc_inode_16<K, unodb::value_view>), sizeof(unodb::detail::olc_inode_48<K, unodb::value_view>), sizeof(unodb::detail::olc_inode_256<K, unodb::value_view>)};
};

struct held_view {
  bytes key;
  const std::byte* p;
  std::size_t n;
  bytes copy;
};

struct scan_spec {
  int api;   // 0 scan, 1 scan_from, 2 scan_range
  bool fwd;
  bytes a, b;
  std::size_t halt_after;  // SIZE_MAX = never
  json to_json() const {
    static const char* names[] = {"scan", "scan_from", "scan_range"};
    json j = json::object().set("api", names[api]).set("fwd", fwd).set("a", vh::hex(a));
    if (api == 2) j.set("b", vh::hex(b));
    if (halt_after != static_cast<std::size_t>(-1)) j.set("halt_after", static_cast<u64>(halt_after));
    return j;
  }
};

// compile-time barrier: get() is declared gnu::pure, keep calls apart (DESIGN 6 rule 7)
inline void barrier() { asm volatile("" ::: "memory"); }

// A second QSBR-registered thread that does nothing but pass through quiescent states on request.
// With it registered, olc_db's reclamation is really deferred (with a single registered thread QSBR frees at
// once), so the OLC clause of C01 - "a value view stays readable and unchanged at least until the caller's
// next quiescent state", even when the caller itself removes the entry - and the "plus whatever awaits
// deferred reclamation" clause of C10 are exercised by the sequential histories too. Strict hand-over:
// the companion only runs while the main thread waits for it.
class companion {
 public:
  companion() : th([this] { loop(); }) { wait_idle(); }
  void quiesce() { command(1); }
  void stop() { command(2); th.join(); }

 private:
  void loop() {
    std::unique_lock lk(m);
    started = true;
    cv.notify_all();
    for (;;) {
      cv.wait(lk, [this] { return cmd != 0; });
      const int c = cmd;
      if (c == 1) unodb::this_thread().quiescent();
      cmd = 0;
      cv.notify_all();
      if (c == 2) return;
    }
  }
  void wait_idle() { std::unique_lock lk(m); cv.wait(lk, [this] { return started && cmd == 0; }); }
  void command(int c) {
    std::unique_lock lk(m);
    cmd = c;
    cv.notify_all();
    cv.wait(lk, [this] { return cmd == 0; });
  }
  std::mutex m;
  std::condition_variable cv;
  int cmd{0};
  bool started{false};
  unodb::qsbr_thread th;
};

template <class Db>
class history {
  using I = dbinfo<Db>;
  using K = typename I::key;

 public:
  history(u64 case_index, vh::rng& r_, const vh::args& a) : r(r_), idx(case_index) {
    const bool bytestring = std::is_same_v<K, unodb::key_view>;
    const auto hint = r.chance(0.15) ? 300 + r.below(1500) : 8 + r.below(200);
    uni = vu::make_universe(r, bytestring, hint);
    nops = a.num("ops", 300);
    if (uni.keys.size() > 600) nops *= 3;
    scan_rate = a.dbl("scanrate", g_prop == "C02" ? 0.35 : 0.06);
    if (a.num("full256", 1) != 0 && r.chance(0.07)) make_full256();
    else if (std::is_same_v<K, unodb::key_view> && a.num("longtail", 1) != 0 && r.chance(0.06)) make_longtail();
    else if (std::is_same_v<K, unodb::key_view> && a.num("spine", 1) != 0 && r.chance(0.05)) make_spine();
    a_prefix_bounds = a.num("prefixbounds", 1) != 0;
    tag = std::string(I::name) + "." + keyconv<K>::name;
    if constexpr (I::olc) with_companion = a.num("companion", 1) != 0 && r.chance(0.5);
  }

  bool poisoned{false};

  // "full256": one inner node with a child under every one of the 256 byte values (the 8-bit child counter wraps to 0
  // there), filled completely, cleared / destroyed while full, and crossing 255 <-> 256 in both directions
  void make_full256() {
    uni = vu::universe{};
    uni.u64 = !std::is_same_v<K, unodb::key_view>;
    uni.family = "full256";
    uni.sh = vu::shape::FIXED;
    uni.len = 8;
    uni.alpha.assign(8, {});
    const bytes base = vm::u64_key(r.next());
    const auto pos = r.below(8);
    for (std::size_t i = 0; i < 8; ++i) uni.alpha[i].push_back(static_cast<unsigned char>(base[i]));
    uni.alpha[pos].clear();
    for (unsigned v = 0; v < 256; ++v) {
      bytes k = base;
      k[pos] = static_cast<char>(v);
      uni.keys.push_back(k);
      uni.alpha[pos].push_back(static_cast<unsigned char>(v));
    }
    if (pos < 7) {  // a few branches carry a second key, so some of the 256 children are inner nodes
      const auto extra = r.below(5);
      for (u64 i = 0; i < extra; ++i) {
        bytes k = base;
        k[pos] = static_cast<char>(r.below(256));
        const auto p2 = pos + 1 + r.below(7 - pos);
        k[p2] = static_cast<char>(static_cast<unsigned char>(k[p2]) ^ (1U + static_cast<unsigned>(r.below(255))));
        uni.keys.push_back(k);
        uni.alpha[p2].push_back(static_cast<unsigned char>(k[p2]));
      }
    }
    std::sort(uni.keys.begin(), uni.keys.end(), vm::byte_less{});
    uni.keys.erase(std::unique(uni.keys.begin(), uni.keys.end()), uni.keys.end());
    nops = std::max<std::size_t>(nops, 1000);
    full256 = true;
  }

  // "longtail": byte-string keys with distinct short heads of one length and long unshared tails (0..700 bytes, many beyond
  // the 256-byte inline capacity of the iterator's key buffer); in 1 of 8 cases the universe is just the empty key.
  void make_longtail() {
    uni = vu::universe{};
    uni.u64 = false;
    uni.family = "longtail";
    uni.sh = vu::shape::FIXED;
    if (r.chance(0.125)) {
      uni.len = 0;
      uni.keys.push_back(bytes());
      uni.family = "emptykey";
      return;
    }
    const std::size_t h = 1 + r.below(4);
    uni.len = h;
    uni.alpha.assign(h, {});
    for (std::size_t i = 0; i < h; ++i) uni.alpha[i] = vu::make_alphabet(r, static_cast<unsigned>(2 + r.below(4)));
    std::set<bytes, vm::byte_less> heads;
    const auto n = 8 + r.below(40);
    for (u64 t = 0; t < n * 4 && heads.size() < n; ++t) {
      bytes k;
      for (std::size_t i = 0; i < h; ++i) k += static_cast<char>(r.pick(uni.alpha[i]));
      heads.insert(k);
    }
    for (const auto& hd : heads) {
      bytes k = hd;
      const auto m = r.below(100);
      const std::size_t tail = m < 20 ? r.below(8) : (m < 60 ? 200 + r.below(120) : r.below(700));
      for (std::size_t i = 0; i < tail; ++i) k += static_cast<char>(r.below(256));
      uni.keys.push_back(k);
    }
    std::sort(uni.keys.begin(), uni.keys.end(), vm::byte_less{});
  }

  // "spine": one long pseudo-random key (300..700 bytes) and keys that leave it every <= 8 bytes, so that the tree is a
  // chain of dozens of inner nodes and tree depths go far beyond 255 (where an 8-bit depth or offset would wrap)
  void make_spine() {
    uni = vu::universe{};
    uni.u64 = false;
    uni.family = "spine";
    uni.sh = vu::shape::FIXED;
    const std::size_t len = 300 + r.below(400);
    uni.len = len;
    bytes spine(len, '\0');
    for (auto& c : spine) c = static_cast<char>(r.below(256));
    uni.keys.push_back(spine);
    spine_order.push_back(spine);
    std::size_t o = r.below(8);
    while (o + 1 < len) {
      bytes k = spine.substr(0, o);
      k += static_cast<char>(static_cast<unsigned char>(spine[o]) ^ (1U + static_cast<unsigned>(r.below(255))));
      const auto tail = r.below(6);
      for (u64 i = 0; i < tail; ++i) k += static_cast<char>(r.below(256));
      uni.keys.push_back(k);
      spine_order.push_back(k);
      o += 1 + r.below(8);  // the next branch point at most 8 bytes further: compressed paths stay <= 7 bytes while all are present
    }
    std::sort(uni.keys.begin(), uni.keys.end(), vm::byte_less{});
    uni.keys.erase(std::unique(uni.keys.begin(), uni.keys.end()), uni.keys.end());
    nops = std::max<std::size_t>(nops, 500);
    spine_mode = true;
  }

  // the first absent key of the universe at or after a random position (full256 fill steps)
  bool pick_absent(bytes* out) {
    const auto n = uni.keys.size();
    const auto start = r.below(n);
    for (std::size_t i = 0; i < n; ++i) {
      const auto& k = uni.keys[(start + i) % n];
      if (model.count(k) == 0) { *out = k; return true; }
    }
    return false;
  }

  void run() {
    const std::size_t base_bytes = vm::alloc_tracker::get().bytes_live();
    {
      // after a violation the index is deliberately leaked: its destructor may assert on the
      // broken state and take the report with it
      auto* db = new Db;
      dbp = db;
      if (with_companion) { vm::alloc_tracker::scoped_ignore ig; comp = new companion; rep().count("histories_with_companion_thread"); }
      phase_plan();
      for (op = 0; op < nops && ok; ++op) step();
      if (ok) final_checks();
      if (ok && comp != nullptr) {
        check_held();
        drain();
        if (ok) check_stats();
      }
      held.clear();
      if (ok && comp != nullptr) { vm::alloc_tracker::scoped_ignore ig; comp->stop(); delete comp; comp = nullptr; }  // after a violation: leaked with the index
      dbp = nullptr;
      if (ok && full256 && model.size() == uni.keys.size()) rep().count("destroyed_with_completely_full_I256");
      if (ok) delete db;
      else poisoned = true;
    }
    // everything returned at destruction
    const auto after = vm::alloc_tracker::get().bytes_live();
    if (ok && after != base_bytes)
      fail("C10", "leak-after-destruction", "bytes still held from the allocator after the index was destroyed",
           json::object().set("bytes", static_cast<u64>(after - base_bytes)));
    finish_counts();
  }

 private:
  // ----------------------------------------------------------- failure
  void fail(const char* prop, const std::string& oracle, const std::string& what, json w = json::object()) {
    ok = false;
    w.set("class", I::name).set("key_kind", keyconv<K>::name).set("family", uni.family).set("op_index", static_cast<u64>(op)).set("keys_in_model", static_cast<u64>(model.size()));
    json tail = json::array();
    for (std::size_t i = trace.size() > 12 ? trace.size() - 12 : 0; i < trace.size(); ++i) tail.push(trace[i]);
    w.set("last_ops", tail);
    rep().violation(prop, "seqmodel/" + oracle, what + " [" + tag + "]", std::move(w));
  }

  // ------------------------------------------------------------- phases
  void phase_plan() {
    // fill / drain / churn phases so that shrink transitions really happen
    const auto n = 2 + r.below(4);
    std::size_t at = 0;
    for (u64 i = 0; i < n; ++i) {
      at += nops / n;
      const auto kind = i == 0 ? 0 : r.below(3);
      phases.push_back({i + 1 == n ? nops : at, static_cast<int>(kind)});
    }
  }
  int phase_kind() const {
    for (const auto& p : phases) if (op < p.first) return p.second;
    return 2;
  }

  // full256 histories: fill to the brim, stay around the 255/256 boundary (single removes and re-inserts, clear while
  // full), and refill at the end so that the destructor meets the full node too. Returns false for "an ordinary step".
  bool full256_step(int x) {
    const bool full = model.size() == uni.keys.size();
    const bool closing = op + 300 >= nops;
    if (!full && (closing || x < 80)) { force_absent = true; do_insert(); return true; }
    if (full) {
      rep().count("steps_on_completely_full_I256");
      if (x < 25) { do_remove(); return true; }   // 256 -> 255
      if (x < 32 && !closing) { do_clear(); if (comp == nullptr) rep().count("clears_of_completely_full_I256"); return true; }
      if (closing) { do_get(); return true; }
    }
    return false;
  }

  // spine histories: grow the chain top-down (the next branch key in offset order is the admissible one), take it down
  // bottom-up now and then; everything else is an ordinary step
  bool spine_step(int x) {
    const bool growing = (op / 120) % 2 == 0;
    if (x < 70 && growing) {
      for (const auto& k : spine_order)
        if (model.count(k) == 0) { forced_key = k; have_forced = true; do_insert(); have_forced = false; rep().count("spine_inserts"); return true; }
    } else if (x < 60 && !growing) {
      for (auto it = spine_order.rbegin(); it != spine_order.rend(); ++it)
        if (model.count(*it) != 0 && *it != spine_order.front()) { forced_key = *it; have_forced = true; do_remove(); have_forced = false; return true; }
    }
    return false;
  }

  bytes random_value() {
    const auto m = r.below(100);
    std::size_t n = m < 10 ? 0 : (m < 80 ? 1 + r.below(24) : (m < 99 ? r.below(301) : 65536));
    bytes v(n, '\0');
    const auto tagv = ++value_counter;
    for (std::size_t i = 0; i < n; ++i) v[i] = static_cast<char>((tagv >> (8 * (i % 8))) ^ (i * 31));
    return v;
  }

  bytes pick_present() {
    auto it = model.lower_bound(r.pick(uni.keys));
    if (it == model.end()) it = model.begin();
    return it->first;
  }

  // --------------------------------------------------------------- step
  void step() {
    const int pk = phase_kind();
    static const int w_ins[3] = {62, 10, 36}, w_rem[3] = {8, 62, 36};
    const auto x = static_cast<int>(r.below(100));
    if (full256 && full256_step(x)) {
    } else if (spine_mode && spine_step(x)) {
    } else if (x < w_ins[pk]) do_insert();
    else if (x < w_ins[pk] + w_rem[pk]) do_remove();
    else if (x < 94) do_get();
    else if (x < 97) do_empty();
    else if (x < 98 && r.chance(0.08)) do_clear();
    else do_quiescent();
    if (!ok) return;
    check_held();
    if (!ok) return;
    check_stats();
    if (!ok) return;
    if (r.chance(scan_rate)) {
      const auto n = 1 + r.below(3);
      for (u64 i = 0; i < n && ok; ++i) do_scan_check();
    }
    if (ok && r.chance(0.01)) { std::ostringstream os; vm::alloc_tracker::scoped_ignore ig; dbp->dump(os); rep().count("dumps"); }
  }

  // sorted key vector, content hash and summed leaf sizes are maintained incrementally
  void skeys_insert(const bytes& k, std::size_t vlen) {
    skeys.insert(std::lower_bound(skeys.begin(), skeys.end(), k, vm::byte_less{}), k);
    chash ^= vh::hash_str(k);
    leaf_bytes += I::leaf::compute_size(static_cast<unodb::key_size_type>(k.size()), static_cast<unodb::value_size_type>(vlen));
  }
  void skeys_erase(const bytes& k, std::size_t vlen) {
    skeys.erase(std::lower_bound(skeys.begin(), skeys.end(), k, vm::byte_less{}));
    chash ^= vh::hash_str(k);
    leaf_bytes -= I::leaf::compute_size(static_cast<unodb::key_size_type>(k.size()), static_cast<unodb::value_size_type>(vlen));
  }
  bool admissible_after_insert(const bytes& k) {
    if (!std::is_same_v<K, unodb::key_view> || model.count(k) != 0) return true;
    const auto at = std::lower_bound(skeys.begin(), skeys.end(), k, vm::byte_less{}) - skeys.begin();
    skeys.insert(skeys.begin() + at, k);
    const bool good = vu::admissible_set(skeys);
    skeys.erase(skeys.begin() + at);
    return good;
  }
  bool admissible_after_remove(const bytes& k) {
    if (!std::is_same_v<K, unodb::key_view> || model.count(k) == 0) return true;
    const auto at = std::lower_bound(skeys.begin(), skeys.end(), k, vm::byte_less{}) - skeys.begin();
    skeys.erase(skeys.begin() + at);
    const bool good = vu::admissible_set(skeys);
    skeys.insert(skeys.begin() + at, k);
    return good;
  }

  void do_insert() {
    if (comp != nullptr) deferred_possible = true;
    bytes k = r.chance(0.12) && !model.empty() ? pick_present() : r.pick(uni.keys);
    if (force_absent) { force_absent = false; (void)pick_absent(&k); }
    if (have_forced) k = forced_key;
    if (!admissible_after_insert(k)) { rep().count("inadmissible_steps_replaced"); return do_get(); }
    const bytes v = random_value();
    const bool want = model.count(k) == 0;
    barrier();
    const bool got = dbp->insert(keyconv<K>::to(k), vv(v));
    barrier();
    trace.push_back(json::object().set("op", "insert").set("key", vh::hex(k)).set("vlen", static_cast<u64>(v.size())).set("ret", got));
    rep().count(want ? "insert_new" : "insert_duplicate");
    if (!want) ++failing_calls;
    if (got != want) return fail("C01", "insert/result", "insert returned the wrong result", json::object().set("key", vh::hex(k)).set("got", got).set("want", want));
    if (want) {
      const auto tb = vm::ref_trie::build(skeys, false);
      model.emplace(k, v);
      skeys_insert(k, v.size());
      account_structure(tb, k, true);
    }
    ophash = vh::hash_combine(ophash, vh::hash_str(k, 1));
  }

  void do_remove() {
    if (comp != nullptr) deferred_possible = true;
    bytes k = !model.empty() && r.chance(0.8) ? pick_present() : r.pick(uni.keys);
    if (have_forced) k = forced_key;
    if (!admissible_after_remove(k)) { rep().count("inadmissible_steps_replaced"); return do_get(); }
    const bool want = model.count(k) != 0;
    // views into the entry end with it (olc: single registered thread frees at once)
    // (with the companion thread registered the free is deferred: the views must survive until this thread's next quiescent state)
    if (want && comp == nullptr) held.erase(std::remove_if(held.begin(), held.end(), [&](const held_view& h) { return h.key == k; }), held.end());
    if (want && comp != nullptr) for (const auto& h : held) if (h.key == k) { rep().count("views_held_across_own_remove"); break; }
    barrier();
    const bool got = dbp->remove(keyconv<K>::to(k));
    barrier();
    trace.push_back(json::object().set("op", "remove").set("key", vh::hex(k)).set("ret", got));
    rep().count(want ? "remove_present" : "remove_absent");
    if (!want) ++failing_calls;
    if (got != want) return fail("C01", "remove/result", "remove returned the wrong result", json::object().set("key", vh::hex(k)).set("got", got).set("want", want));
    if (want) {
      const auto tb = vm::ref_trie::build(skeys, false);
      const auto vlen = model[k].size();
      model.erase(k);
      skeys_erase(k, vlen);
      account_structure(tb, k, false);
    }
    ophash = vh::hash_combine(ophash, vh::hash_str(k, 2));
  }

  // get through the class's own API; returns bytes copy and the raw view
  std::optional<bytes> raw_get(const bytes& k, const std::byte** p, std::size_t* n) {
    barrier();
    if constexpr (I::mutex) {
      auto res = dbp->get(keyconv<K>::to(k));
      barrier();
      const bool hit = res.first.has_value();
      if (Db::key_found(res) != hit) { fail("C01", "get/key_found", "key_found(result) disagrees with the result"); return std::nullopt; }
      if (hit != res.second.owns_lock()) {
        fail("C01", "get/lock-handle", "mutex_db get: lock ownership does not match hit/miss", json::object().set("key", vh::hex(k)).set("hit", hit));
        return std::nullopt;
      }
      if (!hit) return std::nullopt;
      *p = res.first->data();
      *n = res.first->size();
      return bytes(reinterpret_cast<const char*>(*p), *n);  // handle released at scope exit
    } else if constexpr (I::olc) {
      auto res = dbp->get(keyconv<K>::to(k));
      barrier();
      if (Db::key_found(res) != res.has_value()) { fail("C01", "get/key_found", "key_found(result) disagrees with the result"); return std::nullopt; }
      if (!res.has_value()) return std::nullopt;
      *n = res->size();
      *p = *n == 0 ? nullptr : res->begin().get();
      return copy_view(*res);
    } else {
      const auto res = dbp->get(keyconv<K>::to(k));
      barrier();
      if (Db::key_found(res) != res.has_value()) { fail("C01", "get/key_found", "key_found(result) disagrees with the result"); return std::nullopt; }
      if (!res.has_value()) return std::nullopt;
      *p = res->data();
      *n = res->size();
      return bytes(reinterpret_cast<const char*>(*p), *n);
    }
  }

  void do_get() {
    bytes k = !model.empty() && r.chance(0.6) ? pick_present() : r.pick(uni.keys);
    const std::byte* p = nullptr;
    std::size_t n = 0;
    const auto got = raw_get(k, &p, &n);
    if (!ok) return;
    const auto it = model.find(k);
    trace.push_back(json::object().set("op", "get").set("key", vh::hex(k)).set("hit", got.has_value()));
    rep().count(it != model.end() ? "get_hit" : "get_miss");
    if (got.has_value() != (it != model.end()))
      return fail("C01", it != model.end() ? "get/miss-present-key" : "get/hit-absent-key", "get disagrees with the map about presence", json::object().set("key", vh::hex(k)));
    if (got.has_value() && *got != it->second)
      return fail("C01", "get/wrong-value", "get returned bytes other than those given to the insert that created the entry",
                  json::object().set("key", vh::hex(k)).set("got_len", static_cast<u64>(got->size())).set("want_len", static_cast<u64>(it->second.size())));
    if (got.has_value() && held.size() < 24 && r.chance(0.5)) held.push_back({k, p, n, *got});
  }

  void do_empty() {
    barrier();
    const bool got = dbp->empty();
    barrier();
    trace.push_back(json::object().set("op", "empty").set("ret", got));
    rep().count("empty_calls");
    if (got != model.empty()) fail("C01", "empty/result", "empty() disagrees with the map", json::object().set("got", got));
  }

  void do_clear() {
    if (comp != nullptr) return do_get();  // olc_db::clear() is documented as legal only while a single thread is registered
    held.clear();
    dbp->clear();
    model.clear();
    skeys.clear();
    chash = 7;
    leaf_bytes = 0;
    trace.push_back(json::object().set("op", "clear"));
    rep().count("clear_calls");
    cleared = true;
    barrier();
    if (!dbp->empty()) fail("C01", "clear/not-empty", "index not empty after clear()");
  }

  void do_quiescent() {
    if constexpr (I::olc) {
      held.clear();  // olc views are promised only until the caller's next quiescent state
      if (comp != nullptr && r.chance(0.5)) {
        drain();
        trace.push_back(json::object().set("op", "drain"));
        return;
      }
      unodb::this_thread().quiescent();
      if (comp != nullptr && r.chance(0.5)) comp->quiesce();
      trace.push_back(json::object().set("op", "quiescent"));
      rep().count("quiescent_calls");
    } else {
      do_get();
    }
  }

  // three rounds in which every registered thread passes through a quiescent state: nothing may await reclamation afterwards
  void drain() {
    held.clear();
    for (int round = 0; round < 3; ++round) {
      unodb::this_thread().quiescent();
      comp->quiesce();
    }
    deferred_possible = false;
    rep().count("companion_drains");
  }

  void check_held() {
    for (const auto& h : held) {
      if (h.n != h.copy.size() || (h.n != 0 && std::memcmp(h.p, h.copy.data(), h.n) != 0))
        return fail("C01", "held-view/changed", "bytes behind an earlier value view changed while its entry exists", json::object().set("key", vh::hex(h.key)));
    }
    rep().count("held_view_rereads", held.size());
  }

  // ------------------------------------------------- C10: expected structure
  // Called after the model changed by key k (inserted or removed).
  void account_structure(const vm::ref_trie& tb, const bytes& k, bool inserted) {
    const auto& after = skeys;
    const auto ta = vm::ref_trie::build(after, inserted);
    std::uint64_t inner_b = 0, inner_a = 0;
    for (int c = 1; c <= 4; ++c) { inner_b += tb.counts[static_cast<std::size_t>(c)]; inner_a += ta.counts[static_cast<std::size_t>(c)]; }
    if (inserted) {
      if (inner_a == inner_b + 1) {
        ++exp_grow[0];  // a new I4 was created
        ++transitions;
        // prefix split iff the new node's other child is an inner node
        const auto ki = static_cast<std::uint32_t>(std::lower_bound(after.begin(), after.end(), k, vm::byte_less{}) - after.begin());
        const int pn = ta.parent_of_key(ki);
        if (pn >= 0 && ta.nodes[static_cast<std::size_t>(pn)].fanout == 2 && ta.nodes[static_cast<std::size_t>(pn)].leaf_children == 1) { ++exp_splits; rep().count("T.prefix_split." + tag); }
        else rep().count("T.leaf_split." + tag);
      } else {
        for (int c = 2; c <= 4; ++c)
          if (ta.counts[static_cast<std::size_t>(c)] == tb.counts[static_cast<std::size_t>(c)] + 1) { ++exp_grow[c - 1]; ++transitions; rep().count(std::string("T.grow_to_") + cname(c) + "." + tag); }
      }
    } else {
      if (inner_a + 1 == inner_b) {
        ++exp_shrink[0];  // a two-child I4 dissolved
        ++transitions;
        rep().count("T.collapse_I4." + tag);
      } else {
        for (int c = 2; c <= 4; ++c)
          if (ta.counts[static_cast<std::size_t>(c)] + 1 == tb.counts[static_cast<std::size_t>(c)]) { ++exp_shrink[c - 1]; ++transitions; rep().count(std::string("T.shrink_from_") + cname(c) + "." + tag); }
      }
    }
    for (int c = 1; c <= 4; ++c) if (ta.counts[static_cast<std::size_t>(c)] != 0) classes_seen |= 1U << c;
    if (ta.max_depth > deepest) deepest = ta.max_depth;
  }
  static const char* cname(int c) { static const char* n[] = {"LEAF", "I4", "I16", "I48", "I256"}; return n[c]; }

  void check_stats() {
    const auto& keys = skeys;
    const auto t = vm::ref_trie::build(keys, false);
    const auto counts = dbp->get_node_counts();
    for (std::size_t c = 0; c < 5; ++c) {
      if (counts[c] != t.counts[c])
        return fail("C10", std::string("node-count/") + cname(static_cast<int>(c)), "reported node count differs from the radix tree of the current key set",
                    json::object().set("class", cname(static_cast<int>(c))).set("reported", counts[c]).set("expected", t.counts[c]));
    }
    std::size_t mem = leaf_bytes;
    for (std::size_t c = 1; c < 5; ++c) mem += t.counts[c] * I::isz[c - 1];
    const auto reported = dbp->get_current_memory_use();
    if (reported != mem)
      return fail("C10", "memory-use/reported", "reported memory use differs from the summed node sizes of the expected tree",
                  json::object().set("reported", static_cast<u64>(reported)).set("expected", static_cast<u64>(mem)));
    const auto held_bytes = vm::alloc_tracker::get().bytes_live() - base_live;
    if (comp != nullptr && deferred_possible) {
      // "the reported memory use plus whatever awaits deferred reclamation": exact again after the next drain
      if (held_bytes < reported)
        return fail("C10", "memory-use/allocator", "bytes held from the allocator are fewer than the reported memory use",
                    json::object().set("allocator", static_cast<u64>(held_bytes)).set("reported", static_cast<u64>(reported)));
      rep().count("stats_checks_with_deferred_reclamation");
    } else if (held_bytes != reported)
      return fail("C10", "memory-use/allocator", "bytes held from the allocator differ from the reported memory use",
                  json::object().set("allocator", static_cast<u64>(held_bytes)).set("reported", static_cast<u64>(reported)).set("after_drain", comp != nullptr));
    const auto g = dbp->get_growing_inode_counts();
    const auto s = dbp->get_shrinking_inode_counts();
    {  // the per-class accessors must agree with the array accessors
      using NT = unodb::node_type;
      const std::uint64_t single[5] = {dbp->template get_node_count<NT::LEAF>(), dbp->template get_node_count<NT::I4>(), dbp->template get_node_count<NT::I16>(),
                                       dbp->template get_node_count<NT::I48>(), dbp->template get_node_count<NT::I256>()};
      const std::uint64_t sg[4] = {dbp->template get_growing_inode_count<NT::I4>(), dbp->template get_growing_inode_count<NT::I16>(),
                                   dbp->template get_growing_inode_count<NT::I48>(), dbp->template get_growing_inode_count<NT::I256>()};
      const std::uint64_t ss[4] = {dbp->template get_shrinking_inode_count<NT::I4>(), dbp->template get_shrinking_inode_count<NT::I16>(),
                                   dbp->template get_shrinking_inode_count<NT::I48>(), dbp->template get_shrinking_inode_count<NT::I256>()};
      for (std::size_t c = 0; c < 5; ++c)
        if (single[c] != counts[c]) return fail("C10", std::string("node-count/single-accessor/") + cname(static_cast<int>(c)), "get_node_count<T>() disagrees with get_node_counts()", json::object().set("single", single[c]).set("array", counts[c]));
      for (std::size_t c = 0; c < 4; ++c)
        if (sg[c] != g[c] || ss[c] != s[c]) return fail("C10", std::string("growth-counter/single-accessor/") + cname(static_cast<int>(c) + 1), "get_growing/shrinking_inode_count<T>() disagrees with the array accessor", json::object().set("grow_single", sg[c]).set("grow_array", g[c]).set("shrink_single", ss[c]).set("shrink_array", s[c]));
    }
    for (std::size_t c = 0; c < 4; ++c) {
      if (g[c] != exp_grow[c])
        return fail("C10", std::string("growth-counter/") + cname(static_cast<int>(c) + 1), "growth counter moved without (or did not move with) a matching structural event",
                    json::object().set("reported", g[c]).set("expected", exp_grow[c]));
      if (s[c] != exp_shrink[c])
        return fail("C10", std::string("shrink-counter/") + cname(static_cast<int>(c) + 1), "shrink counter moved without (or did not move with) a matching structural event",
                    json::object().set("reported", s[c]).set("expected", exp_shrink[c]));
    }
    if (dbp->get_key_prefix_splits() != exp_splits)
      return fail("C10", "prefix-split-counter", "key prefix split counter differs from the number of prefix splits implied by the history",
                  json::object().set("reported", dbp->get_key_prefix_splits()).set("expected", exp_splits));
    if (g_prop == "C10") {
      rep().evaluation();
      if (t.counts[1] + t.counts[2] + t.counts[3] + t.counts[4] > 0) {
        rep().nontrivial(vh::hash_combine(chash, vh::hash_str(tag)));
      }
    }
  }

  // ------------------------------------------------------------- C02 scans
  // For byte-string keys a bound is any byte string: in particular a proper prefix of stored keys (the natural bound for
  // compound keys: "everything whose first component is 5") or an extension of one. The model orders them byte-wise,
  // a prefix before its extensions.
  bytes make_bound() {
    bytes b = make_bound_same_shape();
    if constexpr (std::is_same_v<K, unodb::key_view>) {
      if (a_prefix_bounds && r.chance(0.25)) {
        if (r.chance(0.6) && !b.empty()) { b.resize(r.below(b.size())); rep().count("prefix_bounds"); }
        else { const auto n = 1 + r.below(3); for (u64 i = 0; i < n; ++i) b += static_cast<char>(r.chance(0.3) ? 0 : r.below(256)); rep().count("extension_bounds"); }
      }
    }
    return b;
  }

  bytes make_bound_same_shape() {
    const auto m = r.below(100);
    if (model.empty() || m < 10) {
      bytes b = r.pick(uni.keys);
      return b;
    }
    const bytes k = pick_present();
    if (m < 25) return k;  // stored key
    if (m < 32 && uni.sh == vu::shape::FIXED) {  // 0 / max
      return bytes(k.size(), r.chance(0.5) ? '\0' : '\xFF');
    }
    if (m < 45 && uni.sh == vu::shape::FIXED) {  // +-1 neighbour as a big-endian integer
      bytes b = k;
      const bool up = r.chance(0.5);
      for (std::size_t i = b.size(); i-- > 0;) {
        auto c = static_cast<unsigned char>(b[i]);
        if (up) { if (++c != 0) { b[i] = static_cast<char>(c); break; } b[i] = 0; }
        else { if (c-- != 0) { b[i] = static_cast<char>(c); break; } b[i] = '\xFF'; }
      }
      return b;
    }
    // leaves the tree at a chosen depth, on a chosen side
    const auto mp = uni.mutable_positions(k);
    if (mp == 0) return k;
    for (int tries = 0; tries < 8; ++tries) {
      const auto p = r.below(mp);
      const auto sib = vu::siblings_at(model, k, p);
      bytes out;
      if (!sib.empty() && uni.falloff(r, k, p, sib, out)) { rep().count("falloff_bounds"); return out; }
    }
    return k;
  }

  template <class FN>
  void call_scan(const scan_spec& s, FN&& fn, const bytes& a, const bytes& b) {
    barrier();
    if (s.api == 0) dbp->scan(fn, s.fwd);
    else if (s.api == 1) dbp->scan_from(keyconv<K>::to(a), fn, s.fwd);
    else dbp->scan_range(keyconv<K>::to(a), keyconv<K>::to(b), fn);
    barrier();
  }

  // run the real scan; returns delivered entries; counts calls after halt
  vm::entry_list run_scan(const scan_spec& s, const bytes& a, const bytes& b, std::size_t* calls_after_halt) {
    vm::entry_list got;
    bool halted = false;
    std::size_t after = 0;
    auto fn = [&](const auto& v) {
      if (halted) { ++after; return true; }
      const auto kv = v.get_key();
      bytes val = copy_view(v.get_value());
      got.emplace_back(bytes(reinterpret_cast<const char*>(kv.data()), kv.size()), std::move(val));
      if (got.size() > model.size() + 8) { halted = true; return true; }  // runaway guard
      if (s.halt_after != static_cast<std::size_t>(-1) && got.size() >= s.halt_after) { halted = true; return true; }
      return false;
    };
    const auto scratch0 = vm::alloc_tracker::get().ignored_live();
    {
      vm::alloc_tracker::scoped_ignore ig;  // iterator key buffers may allocate
      call_scan(s, fn, a, b);
    }
    // ... but whatever a scan allocates for itself must be returned when it returns (C10: bytes held are a function of the key set)
    if (vm::alloc_tracker::get().ignored_live() != scratch0)
      fail("C10", "scan/scratch-memory-not-returned", "a scan returned while still holding memory it allocated for itself (iterator buffers)",
           json::object().set("scan", s.to_json()).set("blocks", static_cast<u64>(vm::alloc_tracker::get().ignored_live() - scratch0)).set("delivered", static_cast<u64>(got.size())));
    rep().count("scans_with_scratch_accounting");
    *calls_after_halt = after;
    return got;
  }

  void do_scan_check() {
    scan_spec s;
    s.api = static_cast<int>(r.below(3));
    s.fwd = r.chance(0.5);
    s.a = make_bound();
    s.b = make_bound();
    s.halt_after = static_cast<std::size_t>(-1);
    if (s.api == 2) s.fwd = vm::byte_cmp(s.a, s.b) < 0;
    // decide the halting position first so that the model slice stays small on big trees
    const bool big = model.size() > 48;
    if (r.chance(big ? 0.85 : 0.45)) s.halt_after = r.chance(big ? 0.9 : 0.6) ? 1 + r.below(6) : 1 + r.below(model.size() + 1);
    vm::entry_list want = s.api == 0 ? vm::slice_all(model, s.fwd, s.halt_after) : (s.api == 1 ? vm::slice_from(model, s.a, s.fwd, s.halt_after) : vm::slice_range(model, s.a, s.b, s.halt_after));
    judge_scan(s, want, s.a, s.b, false);
    if (!ok) return;
    // halting at position 0 is not expressible (the visitor is called before it can halt); every
    // position for small results
    if (want.size() <= 5 && s.halt_after == static_cast<std::size_t>(-1)) {
      for (std::size_t j = 1; j <= want.size() && ok; ++j) {
        scan_spec h = s;
        h.halt_after = j;
        auto w = want;
        w.resize(j);
        judge_scan(h, w, h.a, h.b, false);
      }
    }
    // byte-string scan_range: same bounds, buffers in the opposite address order
    if (ok && s.api == 2 && std::is_same_v<K, unodb::key_view>) {
      const auto mlen = std::max(s.a.size(), s.b.size());  // the bounds may differ in length (prefix / extension bounds)
      std::vector<char> arena(2 * mlen + 64);
      char* lo = arena.data();
      char* hi = arena.data() + mlen + 32;
      for (const bool a_low : {true, false}) {
        char* pa = a_low ? lo : hi;
        char* pb = a_low ? hi : lo;
        std::memcpy(pa, s.a.data(), s.a.size());
        std::memcpy(pb, s.b.data(), s.b.size());
        judge_scan_views(s, want, unodb::key_view{reinterpret_cast<const std::byte*>(pa), s.a.size()}, unodb::key_view{reinterpret_cast<const std::byte*>(pb), s.b.size()}, a_low);
        if (!ok) return;
      }
    }
  }

  void judge_scan(const scan_spec& s, const vm::entry_list& want, const bytes& a, const bytes& b, bool) {
    std::size_t after = 0;
    const auto got = run_scan(s, a, b, &after);
    compare_scan(s, want, got, after, "");
  }

  // scan_range with explicit key views (address-order experiment)
  void judge_scan_views(const scan_spec& s, const vm::entry_list& want, unodb::key_view a, unodb::key_view b, bool a_low) {
    if constexpr (std::is_same_v<K, unodb::key_view>) {
      vm::entry_list got;
      bool halted = false;
      std::size_t after = 0;
      auto fn = [&](const auto& v) {
        if (halted) { ++after; return true; }
        const auto kv = v.get_key();
        bytes val = copy_view(v.get_value());
        got.emplace_back(bytes(reinterpret_cast<const char*>(kv.data()), kv.size()), std::move(val));
        if (got.size() > model.size() + 8) { halted = true; return true; }
        if (s.halt_after != static_cast<std::size_t>(-1) && got.size() >= s.halt_after) { halted = true; return true; }
        return false;
      };
      vm::alloc_tracker::scoped_ignore ig;
      barrier();
      dbp->scan_range(a, b, fn);
      barrier();
      compare_scan(s, want, got, after, a_low ? "/from-buffer-below-to-buffer" : "/from-buffer-above-to-buffer");
      rep().count("address_order_scans");
    } else {
      (void)s; (void)want; (void)a; (void)b; (void)a_low;
    }
  }

  void compare_scan(const scan_spec& s, const vm::entry_list& want, const vm::entry_list& got, std::size_t after, const std::string& suffix) {
    static const char* names[] = {"scan", "scan_from", "scan_range"};
    rep().count(std::string("scans.") + names[s.api] + (s.fwd ? ".fwd" : ".rev"));
    if (g_prop == "C02") {
      rep().evaluation();
      const bool stored = model.count(s.a) != 0;
      if (!stored || !want.empty()) {
        u64 h = vh::hash_combine(contenthash(), static_cast<u64>(s.api) * 2 + (s.fwd ? 1 : 0));
        h = vh::hash_combine(h, vh::hash_str(s.a));
        if (s.api == 2) h = vh::hash_combine(h, vh::hash_str(s.b));
        h = vh::hash_combine(h, s.halt_after);
        rep().nontrivial(vh::hash_combine(h, vh::hash_str(tag + suffix)));
      }
      if (scan_samples < 2 && !want.empty() && model.size() > 4) {
        ++scan_samples;
        rep().sample(json::object().set("class", tag).set("family", uni.family).set("scan", s.to_json()).set("entries_in_index", static_cast<u64>(model.size())).set("entries_expected", static_cast<u64>(want.size())).set("first_expected_key", vh::hex(want.front().first)), 6);
      }
    }
    std::string oracle;
    json w = json::object().set("scan", s.to_json()).set("expected", static_cast<u64>(want.size())).set("delivered", static_cast<u64>(got.size()));
    if (after != 0) oracle = "called-after-halt";
    else if (got.size() < want.size()) oracle = "missing-entries";
    else if (got.size() > want.size()) oracle = "extra-entries";
    if (oracle.empty()) {
      for (std::size_t i = 0; i < want.size(); ++i) {
        if (got[i].first != want[i].first) { oracle = "wrong-key-or-order"; w.set("position", static_cast<u64>(i)).set("got_key", vh::hex(got[i].first)).set("want_key", vh::hex(want[i].first)); break; }
        if (got[i].second != want[i].second) { oracle = "wrong-value"; w.set("position", static_cast<u64>(i)).set("key", vh::hex(got[i].first)); break; }
      }
    } else if (!got.empty() || !want.empty()) {
      if (!want.empty()) w.set("first_expected_key", vh::hex(want.front().first));
      if (!got.empty()) w.set("first_delivered_key", vh::hex(got.front().first));
    }
    if (!oracle.empty()) {
      json ks = json::array();
      std::size_t n = 0;
      for (const auto& kv : model) { if (n++ >= 40) break; ks.push(vh::hex(kv.first)); }
      w.set("index_keys_first40", ks);
      fail("C02", std::string(names[s.api]) + "/" + oracle + suffix, std::string(names[s.api]) + " delivered a sequence different from the model's slice", std::move(w));
    }
  }

  u64 contenthash() const { return chash; }

  // ------------------------------------------------------------ the end
  void final_checks() {
    // full content agreement: every key of the universe through get, plus a full scan
    for (const auto& k : uni.keys) {
      if (uni.keys.size() > 400 && !r.chance(0.25)) continue;
      const std::byte* p = nullptr;
      std::size_t n = 0;
      const auto got = raw_get(k, &p, &n);
      if (!ok) return;
      const auto it = model.find(k);
      if (got.has_value() != (it != model.end()) || (got.has_value() && *got != it->second))
        return fail("C01", "final/content", "final content differs from the map", json::object().set("key", vh::hex(k)));
    }
    scan_spec s{0, true, bytes(), bytes(), static_cast<std::size_t>(-1)};
    judge_scan(s, vm::slice_all(model, true), s.a, s.b, false);
    if (ok) { s.fwd = false; judge_scan(s, vm::slice_all(model, false), s.a, s.b, false); }
  }

  void finish_counts() {
    if (g_prop == "C01") {
      rep().evaluation();
      if (ok && transitions > 0 && failing_calls > 0) rep().nontrivial(vh::hash_combine(ophash, vh::hash_str(tag)));
      if (idx < 3) {
        json tail = json::array();
        for (std::size_t i = 0; i < trace.size() && i < 10; ++i) tail.push(trace[i]);
        rep().sample(json::object().set("class", tag).set("family", uni.family).set("universe_keys", static_cast<u64>(uni.keys.size())).set("operations", static_cast<u64>(nops)).set("structural_transitions", transitions).set("first_ops", tail), 4);
      }
    }
    if (g_prop == "C10" && idx < 2)
      rep().sample(json::object().set("class", tag).set("family", uni.family).set("final_keys", static_cast<u64>(model.size())).set("structural_transitions", transitions).set("grow_counters", json::array().push(exp_grow[0]).push(exp_grow[1]).push(exp_grow[2]).push(exp_grow[3])).set("shrink_counters", json::array().push(exp_shrink[0]).push(exp_shrink[1]).push(exp_shrink[2]).push(exp_shrink[3])), 4);
    rep().count("histories." + tag);
    rep().count("family." + uni.family);
    rep().count("ops", op);
    rep().count_max("deepest_tree_max", deepest);
    if (cleared) rep().count("histories_with_clear");
    for (int c = 1; c <= 4; ++c) if ((classes_seen >> c) & 1U) rep().count(std::string("class_seen.") + cname(c) + "." + tag);
  }

  vh::rng& r;
  u64 idx;
  vu::universe uni;
  vm::model_map model;
  std::vector<bytes> skeys;
  u64 chash{7};
  std::size_t leaf_bytes{0};
  Db* dbp{nullptr};
  std::size_t nops{300}, op{0};
  double scan_rate{0.06};
  std::string tag;
  std::vector<std::pair<std::size_t, int>> phases;
  std::vector<held_view> held;
  std::vector<json> trace;
  bool ok{true}, cleared{false};
  u64 value_counter{0}, failing_calls{0}, transitions{0}, ophash{99}, exp_splits{0};
  u64 exp_grow[4]{}, exp_shrink[4]{};
  unsigned classes_seen{0}, deepest{0};
  int scan_samples{0};
  std::size_t base_live{vm::alloc_tracker::get().bytes_live()};
  bool full256{false}, force_absent{false}, spine_mode{false}, have_forced{false};
  bytes forced_key;
  std::vector<bytes> spine_order;
  bool a_prefix_bounds{true};
  bool with_companion{false};
  bool deferred_possible{false};  // something may have been retired since the last drain
  companion* comp{nullptr};
};

// ---------------------------------------------------------------- directed
// D4 reproducers (known finding): key sets that need a compressed path longer
// than 7 bytes. Run in a forked child: assertion builds abort, NDEBUG builds
// lose a key.
template <class Db>
int d4_child(int form) {
  Db db;
  const bytes P = "PREFIX89";  // 8 shared bytes
  const bytes a = P + "a", b = P + "b";
  const bytes v = "v";
  using K = unodb::key_view;
  if (form == 0) {
    if (!db.insert(keyconv<K>::to(a), vv(v))) return 3;
    if (!db.insert(keyconv<K>::to(b), vv(v))) return 3;
    auto g = db.get(keyconv<K>::to(a));
    auto h = db.get(keyconv<K>::to(b));
    return g.has_value() && h.has_value() ? 0 : 1;
  }
  // collapse form: removing the branch key A1 forces the path "B2345678" (8 bytes) onto the surviving node
  const bytes k1 = "A1", k4 = "B2345678x", k5 = "B2345678y";
  Db db2;
  if (!db2.insert(keyconv<K>::to(k4), vv(v))) return 3;
  if (!db2.insert(keyconv<K>::to(k1), vv(v))) return 3;
  if (!db2.insert(keyconv<K>::to(k5), vv(v))) return 3;  // under B: path "2345678" (7 bytes) - still fine
  if (!db2.remove(keyconv<K>::to(k1))) return 3;
  auto g = db2.get(keyconv<K>::to(k4));
  auto h = db2.get(keyconv<K>::to(k5));
  return g.has_value() && h.has_value() ? 0 : 1;
}

void directed_d4() {
  for (int form = 0; form < 2; ++form) {
    std::fflush(nullptr);
    const pid_t pid = fork();
    if (pid == 0) {
      // silence the child's assertion message; the parent reports
      std::freopen("/dev/null", "w", stderr);
      _exit(d4_child<unodb::db<unodb::key_view, unodb::value_view>>(form));
    }
    int st = 0;
    waitpid(pid, &st, 0);
    rep().count("directed_d4_cases");
    const bool good = WIFEXITED(st) && WEXITSTATUS(st) == 0;
    if (!good) {
      const std::string how = WIFSIGNALED(st) ? "child aborted (assertion)" : (WEXITSTATUS(st) == 1 ? "a stored key was lost" : "setup insert failed");
      rep().violation("C01", form == 0 ? "seqmodel/directed/d4-insert-shared-run-over-7" : "seqmodel/directed/d4-collapse-path-over-7",
                      std::string("byte-string keys that need a compressed path longer than 7 bytes corrupt the tree: ") + how,
                      json::object().set("form", form == 0 ? "insert(P+a), insert(P+b), get both; |P| = 8" : "insert B2345678x, A1, B2345678y; remove A1; get both").set("outcome", how));
    }
  }
}

bool g_poisoned = false;
template <class Db>
void run_one(u64 idx, vh::rng& r, const vh::args& a) {
  history<Db> h(idx, r, a);
  h.run();
  g_poisoned |= h.poisoned;
}

void alloc_cb(void* p, std::size_t n) noexcept { vm::alloc_tracker::get().on_alloc(p, n); }
void dealloc_cb(void* p) noexcept {
  if (vm::alloc_tracker::get().on_dealloc(p) == static_cast<std::size_t>(-1))
    rep().count("free_of_untracked_block");
}

}  // namespace

int main(int argc, char** argv) {
  const vh::args a(argc, argv);
  rep().init(a, "seqmodel");
  g_prop = a.str("prop", "C01");
  unodb::verif::on_alloc.store(alloc_cb);
  unodb::verif::on_dealloc.store(dealloc_cb);
  const vh::case_range cr(a);
  using V = unodb::value_view;
  for (u64 c = cr.begin; c < cr.end; ++c) {
    const u64 combo = a.has("combo") && a.str("combo") != "all" ? a.num("combo") : c % 6;
    rep().progress_case(c, g_prop.c_str());
    vh::rng r(vh::case_seed(rep().seed, c, 0x5E9));
    switch (combo) {
      case 0: run_one<unodb::db<std::uint64_t, V>>(c, r, a); break;
      case 1: run_one<unodb::db<unodb::key_view, V>>(c, r, a); break;
      case 2: run_one<unodb::mutex_db<std::uint64_t, V>>(c, r, a); break;
      case 3: run_one<unodb::mutex_db<unodb::key_view, V>>(c, r, a); break;
      case 4: run_one<unodb::olc_db<std::uint64_t, V>>(c, r, a); break;
      default: run_one<unodb::olc_db<unodb::key_view, V>>(c, r, a); break;
    }
    if (g_poisoned) { rep().set_resume(c + 1); break; }  // leaked, possibly corrupt index: continue in a fresh process
    if (rep().violations_for(g_prop) >= 12) break;
  }
  if (a.has("directed") && g_prop == "C01" && cr.begin == 0) directed_d4();  // once per run (the worker that starts at case 0)
  rep().finish();
  if (g_poisoned) _exit(0);  // skip destructors / leak checking of the deliberately leaked index
  return 0;
}
