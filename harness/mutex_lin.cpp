// E5 mutex_lin: C13 - operations on unodb::mutex_db issued from plain threads are
// linearizable; a get that hits returns the value together with ownership of the
// index lock (value bytes stay put until the caller lets go), a get that misses and
// every other operation return without the lock.
//
// A case = one ROUND: fresh mutex_db, single-threaded pre-population of a tiny key
// universe, T free-running std::threads (no scheduler) each issuing a few operations
// with unique values, join, single-threaded final snapshot. Oracles, all evaluated by
// the main thread after the join:
//   lin      per-key Wing-Gong check (common/lincheck.hpp); scans enter every key's
//            history as pseudo-gets sharing the scan's interval
//   empty    sound interval rule (only "definitely present/absent throughout" fires)
//   handle   owns_lock() == has_value() on every get; bytes re-read under the hold
//   window   no other thread's operation lies strictly inside a hold window
//   lock     pthread_mutex_{lock,unlock,trylock} interposed (not under TSan): number of
//            mutexes the calling thread holds when a library call returns
//   hang     watchdog thread: no stamp taken for --hang-ms while the index is in use
//            (backstop for a leaked lock: the only wall-clock based verdict)
// Stamps come from one global atomic counter (x86 `lock xadd` = full fence, so stamps
// respect real time); compiler barriers bracket every library call (get is gnu::pure).
//   --threads-max N (8)  --ops-max N (6)  --hang-ms N (20000)
#include "global.hpp"

#include <dlfcn.h>
#include <pthread.h>
#include <sched.h>
#include <unistd.h>

#include <array>
#include <atomic>
#include <chrono>
#include <cstring>
#include <memory>
#include <mutex>
#include <optional>
#include <sstream>
#include <string>
#include <thread>
#include <unordered_map>
#include <vector>

#include "art.hpp"
#include "mutex_art.hpp"

#include "common/lincheck.hpp"
#include "common/vh.hpp"

#if defined(__SANITIZE_THREAD__)
#define MLIN_TSAN 1
#elif defined(__has_feature)
#if __has_feature(thread_sanitizer)
#define MLIN_TSAN 1
#endif
#endif
#ifndef MLIN_TSAN
#define MLIN_TSAN 0
#endif

#define MLIN_CB() asm volatile("" ::: "memory")

using vh::json;
using vh::rep;
using vh::u64;

// ------------------------------------------------------------------ lock monitor
namespace lm {
thread_local bool in_lib = false;            // set by the harness around calls into mutex_db
thread_local int held = 0;                   // mutexes taken minus released while in_lib
thread_local pthread_mutex_t* last = nullptr;  // most recent mutex taken while in_lib
bool active = false;                         // interposition verified by the start-up self-test
}  // namespace lm

#if !MLIN_TSAN
// The executable's own definitions preempt libc's for every caller (std::mutex::lock ->
// __gthread_mutex_lock -> pthread_mutex_lock). TSan has its own interceptors, so there
// the monitor is compiled out and TSan's mutex checks (double lock, unlock of an
// unlocked mutex, destroy of a locked mutex) stand in.
namespace lm {
using fn_t = int (*)(pthread_mutex_t*);
std::atomic<fn_t> real[3] = {};       // lock, unlock, trylock
thread_local bool resolving = false;  // dlsym may lock loader mutexes on this thread
void resolve_all() noexcept {
  static const char* const names[3] = {"pthread_mutex_lock", "pthread_mutex_unlock", "pthread_mutex_trylock"};
  resolving = true;
  for (int i = 0; i < 3; ++i) {
    // NOLINTNEXTLINE(cppcoreguidelines-pro-type-reinterpret-cast)
    const auto f = reinterpret_cast<fn_t>(::dlsym(RTLD_NEXT, names[i]));
    if (f == nullptr) {
      static const char msg[] = "mutex_lin: dlsym(RTLD_NEXT, pthread_mutex_*) failed\n";
      (void)!::write(2, msg, sizeof msg - 1);
      ::_exit(2);
    }
    real[i].store(f, std::memory_order_release);
  }
  resolving = false;
}
inline fn_t fn(int i) noexcept {
  auto f = real[i].load(std::memory_order_acquire);
  if (f == nullptr) { resolve_all(); f = real[i].load(std::memory_order_acquire); }
  return f;
}
// Resolve before main() while the process is single-threaded: the recursion guard below
// turns the loader's own lock/unlock pairs on the resolving thread into no-ops, which is
// only safe as long as nobody else can contend for them.
__attribute__((constructor(101))) void resolve_early() noexcept { (void)fn(0); }
}  // namespace lm

extern "C" {
int pthread_mutex_lock(pthread_mutex_t* m) {
  if (lm::resolving) return 0;
  const int r = lm::fn(0)(m);
  if (r == 0 && lm::in_lib) { ++lm::held; lm::last = m; }
  return r;
}
int pthread_mutex_unlock(pthread_mutex_t* m) {
  if (lm::resolving) return 0;
  const int r = lm::fn(1)(m);
  if (r == 0 && lm::in_lib) --lm::held;
  return r;
}
int pthread_mutex_trylock(pthread_mutex_t* m) {
  if (lm::resolving) return 0;
  const int r = lm::fn(2)(m);
  if (r == 0 && lm::in_lib) { ++lm::held; lm::last = m; }
  return r;
}
}
#endif  // !MLIN_TSAN

namespace {

using db_t = unodb::mutex_db<std::uint64_t, unodb::value_view>;

inline void lib_enter() noexcept { MLIN_CB(); lm::in_lib = true; MLIN_CB(); }
inline void lib_leave() noexcept { MLIN_CB(); lm::in_lib = false; MLIN_CB(); }

// Does std::mutex really go through the interposed functions in this toolchain?
bool lockmon_selftest() {
#if MLIN_TSAN
  return false;
#else
  std::mutex m;
  lm::held = 0;
  lib_enter();
  m.lock();
  const int a = lm::held;
  m.unlock();
  const int b = lm::held;
  const bool t = m.try_lock();
  const int c = lm::held;
  if (t) m.unlock();
  lib_leave();
  m.lock();  // outside a library call: not counted
  const int d = lm::held;
  m.unlock();
  lm::held = 0;
  return a == 1 && b == 0 && t && c == 1 && d == 0;
#endif
}

// ------------------------------------------------------------------------ stamps
// Under TSan (x86 only) the stamps are relaxed RMWs: still `lock xadd`, i.e. a full
// hardware fence, but TSan derives no happens-before edge from them, so the harness
// adds no synchronisation that could hide a missing lock in the library.
#if MLIN_TSAN && defined(__x86_64__)
constexpr auto kStampOrder = std::memory_order_relaxed;
#else
constexpr auto kStampOrder = std::memory_order_seq_cst;
#endif
std::atomic<u64> g_clock{1};
inline u64 stamp() noexcept {
  MLIN_CB();
  const u64 s = g_clock.fetch_add(1, kStampOrder);
  MLIN_CB();
  return s;
}

// ------------------------------------------------------------------------ values
// 8-16 bytes: the unique id (little endian) followed by id-derived filler.
constexpr u64 kCorrupt = u64{1} << 63;  // never a valid id: matches no insert in the checker
constexpr u64 kEmptyId = 0xE0E0E0;      // every zero-length value (not unique: the checker does not need uniqueness)
struct valbuf {
  std::array<std::byte, 16> b{};
  std::size_t n{0};
  unodb::value_view view() const noexcept { return {b.data(), n}; }
};
valbuf encode(u64 id) noexcept {
  valbuf v;
  v.n = 8 + id % 9;
  std::memcpy(v.b.data(), &id, 8);
  const u64 f = vh::mix64(id);
  for (std::size_t i = 8; i < v.n; ++i) v.b[i] = static_cast<std::byte>(f >> (8 * (i - 8)));
  return v;
}
u64 decode(const std::byte* p, std::size_t n) noexcept {
  if (n == 0) return kEmptyId;
  if (n >= 8 && n <= 16) {
    u64 id;
    std::memcpy(&id, p, 8);
    if (id != 0 && (id & kCorrupt) == 0) {
      const auto e = encode(id);
      if (e.n == n && std::memcmp(e.b.data(), p, n) == 0) return id;
    }
  }
  return kCorrupt | (vh::hash_bytes(p, std::min<std::size_t>(n, 16)) >> 1);
}

// ----------------------------------------------------------------------- history
enum : int { K_INSERT = vl::INSERT, K_REMOVE = vl::REMOVE, K_GET = vl::GET, K_EMPTY = 3, K_SCAN = 4, K_CLEAR = 5, K_STATS = 6, K_DUMP = 7 };
const char* const kNames[] = {"insert", "remove", "get", "empty", "scan", "clear", "statistics", "dump"};

struct planned { int kind; int key; };

struct rec {
  int kind{K_GET}, key{-1}, thread{0};
  u64 call{0}, ret{0};
  bool ok{false};       // insert/remove: result; get: found; empty: result
  u64 value{0};         // insert: id written; get hit: id observed
  u64 hold_end{0};      // get hit with the lock: pre-release stamp; hold window = (ret, hold_end)
  std::vector<std::pair<u64, u64>> seen;  // scan: (key, value id) as delivered
};

struct alignas(128) worker {
  int id{0};
  vh::rng prng;
  std::vector<planned> plan;
  std::vector<rec> out;
  std::vector<std::pair<std::string, std::string>> viol;  // (key, what); reported by main after the round
  u64 rereads{0}, lock_checks{0}, next_val{0};
  std::atomic<int> cur{-1};       // kind of the operation in flight (hang attribution)
  std::atomic<int> finished{0};   // operations completed (logical progress)
  std::atomic<bool> done{false};
  std::thread th;
};

struct round_ctx {
  db_t db;
  std::vector<u64> keys;     // [0, nactive): targeted by operations; the rest is static ballast
  std::size_t nactive{0};
  std::vector<u64> initial;  // per key: id of the pre-populated value, 0 = absent
  std::atomic<int> ready{0}, go{0};
  std::atomic<int> phase{0};  // 1: keys/initial final, 2: w final (what the watchdog may read)
  std::vector<std::unique_ptr<worker>> w;
  worker main_w;             // the main thread's sequential operations: pre-population, final snapshot
};

struct config { u64 threads_max{8}, ops_max{6}, hang_ms{60000}; } g_cfg;

inline void cpu_relax() noexcept {
#if defined(__x86_64__) || defined(__i386__)
  __builtin_ia32_pause();
#endif
}
void pause_us(double us) noexcept {
  const auto end = std::chrono::steady_clock::now() + std::chrono::duration_cast<std::chrono::nanoseconds>(std::chrono::duration<double, std::micro>(us));
  while (std::chrono::steady_clock::now() < end) cpu_relax();
}
// log-uniform in [lo, hi] microseconds
double log_uniform(vh::rng& r, double lo, double hi) noexcept {
  double v = lo;
  const u64 doublings = r.below(static_cast<u64>(__builtin_log2(hi / lo)) + 1);
  for (u64 i = 0; i < doublings; ++i) v *= 2;
  return std::min(hi, v * (1.0 + static_cast<double>(r.below(1000)) / 1000.0));
}
void perturb(vh::rng& r) noexcept {
  if (!r.chance(0.12)) return;
  if (r.chance(0.3)) ::sched_yield(); else pause_us(log_uniform(r, 0.1, 50));
}

// After a library call: the calling thread must hold exactly [expect] mutexes. A leaked
// lock is reported and (when [repair]) released so the round can go on instead of hanging.
void check_held(worker& w, const char* after, int expect, bool repair) {
  if (!lm::active) return;
  ++w.lock_checks;
  const int h = lm::held;
  if (h == expect) return;
  if (h > expect) {
    w.viol.emplace_back(std::string("mutex_lin/lock/held-after-") + after,
                        "thread holds " + std::to_string(h) + " mutex(es) after " + after + " returned, expected " + std::to_string(expect));
    if (repair && lm::last != nullptr) {
      lib_enter(); (void)::pthread_mutex_unlock(lm::last); lib_leave();
      lm::held = expect;
    }  // else: the returned handle still owns it and releases it (do_get)
  } else {
    w.viol.emplace_back("mutex_lin/lock/not-held-after-hit", std::string("thread holds no mutex after ") + after + " returned");
  }
}

// One get with the handle monitor. [hold]: keep the handle for a randomized time.
void do_get(round_ctx& rc, worker& w, rec& r, bool hold) {
  const u64 k = rc.keys[static_cast<std::size_t>(r.key)];
  r.call = stamp();
  lib_enter();
  auto res = rc.db.get(k);
  lib_leave();
  r.ret = stamp();
  const bool hit = res.first.has_value();
  const bool owns = res.second.owns_lock();
  r.ok = hit;
  if (hit && !owns) w.viol.emplace_back("mutex_lin/handle/hit-without-lock", "get found the key but the returned handle does not own the index lock");
  if (!hit && owns) w.viol.emplace_back("mutex_lin/handle/miss-with-lock", "get missed but the returned handle owns the index lock");
  check_held(w, hit ? "get-hit" : "get-miss", hit ? 1 : 0, false);  // the handle (if any) releases below
  if (hit) {
    std::array<std::byte, 16> copy{};
    const std::size_t n = res.first->size();
    const std::size_t m = std::min<std::size_t>(n, copy.size());
    std::memcpy(copy.data(), res.first->data(), m);
    r.value = n <= 16 ? decode(copy.data(), n) : (kCorrupt | 7);
    if (owns) {  // without the lock the bytes may be freed memory: do not touch them again
      const u64 rereads = hold ? w.prng.range(2, 4) : 1;
      const u64 sel = hold ? w.prng.below(100) : 0;
      const double total_us = !hold ? 0 : sel < 50 ? log_uniform(w.prng, 0.1, 5) : sel < 85 ? log_uniform(w.prng, 5, 50) : log_uniform(w.prng, 50, 200);
      const bool yields = hold && w.prng.chance(0.15);
      for (u64 i = 0; i < rereads; ++i) {
        if (yields) ::sched_yield(); else if (hold) pause_us(total_us / static_cast<double>(rereads));
        MLIN_CB();
        if (res.first->size() != n || std::memcmp(res.first->data(), copy.data(), m) != 0)
          w.viol.emplace_back("mutex_lin/handle/value-changed-under-hold", "value bytes differ from the first copy while the handle is held");
        MLIN_CB();
        ++w.rereads;
      }
      r.hold_end = stamp();
    }
  }
  if (owns) {
    lib_enter();
    res.second.unlock();
    lib_leave();
    check_held(w, "release", 0, false);
  }
}

u64 decode_key(unodb::key_view kv) noexcept {
  u64 be = 0;
  if (kv.size() != 8) return ~u64{0};
  std::memcpy(&be, kv.data(), 8);
  return __builtin_bswap64(be);
}

void run_worker(round_ctx& rc, worker& w) {
  rc.ready.fetch_add(1, std::memory_order_relaxed);
  for (unsigned spins = 0; rc.go.load(std::memory_order_relaxed) == 0; ++spins) {
    if ((spins & 255U) == 255U) ::sched_yield(); else cpu_relax();
  }
  for (const auto& p : w.plan) {
    perturb(w.prng);
    w.cur.store(p.kind, std::memory_order_relaxed);
    rec r;
    r.kind = p.kind;
    r.key = p.key;
    r.thread = w.id;
    const u64 k = p.key >= 0 ? rc.keys[static_cast<std::size_t>(p.key)] : 0;
    switch (p.kind) {
      case K_INSERT: {
        r.value = (static_cast<u64>(w.id + 1) << 32) | ++w.next_val;
        auto vb = encode(r.value);
        if (w.next_val % 7 == 3) { vb.n = 0; r.value = kEmptyId; }  // a zero-length value: a hit must still own the lock
        r.call = stamp(); lib_enter();
        r.ok = rc.db.insert(k, vb.view());
        lib_leave(); r.ret = stamp();
        check_held(w, "insert", 0, true);
        break;
      }
      case K_REMOVE:
        r.call = stamp(); lib_enter();
        r.ok = rc.db.remove(k);
        lib_leave(); r.ret = stamp();
        check_held(w, "remove", 0, true);
        break;
      case K_EMPTY:
        r.call = stamp(); lib_enter();
        r.ok = rc.db.empty();
        lib_leave(); r.ret = stamp();
        check_held(w, "empty", 0, true);
        break;
      case K_STATS: {
        // the statistics accessors are operations of the mutex index too: each must return a snapshot of one moment.
        // Whatever the interleaving, a tree of <= 1 leaves has no inner node and one of >= 2 leaves has at least one,
        // and no counter of a snapshot exceeds what the key space allows (TSan judges the accesses themselves).
#ifdef UNODB_DETAIL_WITH_STATS
        r.call = stamp(); lib_enter();
        const auto nc = rc.db.get_node_counts();
        lib_leave();
        check_held(w, "get_node_counts", 0, true);
        lib_enter();
        const auto gc = rc.db.get_growing_inode_counts();
        const auto sc = rc.db.get_shrinking_inode_counts();
        const auto mem = rc.db.get_current_memory_use();
        const auto sp = rc.db.get_key_prefix_splits();
        lib_leave(); r.ret = stamp();
        check_held(w, "statistics", 0, true);
        const auto inner = nc[1] + nc[2] + nc[3] + nc[4];
        if ((nc[0] <= 1 && inner != 0) || (nc[0] >= 2 && inner == 0) || nc[0] > rc.keys.size() || inner > rc.keys.size())
          w.viol.emplace_back("mutex_lin/statistics/impossible-snapshot", "get_node_counts() returned a combination of counters no single state of the index has (leaves=" + std::to_string(nc[0]) + ", inner=" + std::to_string(inner) + ")");
        (void)gc; (void)sc; (void)sp; (void)mem;  // separate calls: not comparable with nc
#else
        r.call = stamp(); r.ret = stamp();
#endif
        r.ok = true;
        break;
      }
      case K_DUMP: {  // walks the whole tree under the index lock like every other operation (hold-window rule, TSan)
        std::ostringstream os;
        r.call = stamp(); lib_enter();
        rc.db.dump(os);
        lib_leave(); r.ret = stamp();
        r.ok = true;
        check_held(w, "dump", 0, true);
        break;
      }
      case K_CLEAR:
        r.call = stamp(); lib_enter();
        rc.db.clear();
        lib_leave(); r.ret = stamp();
        r.ok = true;
        check_held(w, "clear", 0, true);
        break;
      case K_SCAN: {
        r.seen.reserve(rc.keys.size() + 4);
        auto fn = [&r, lim = rc.keys.size() + 4](const auto& v) {
          const auto val = v.get_value();
          std::array<std::byte, 16> copy{};
          std::memcpy(copy.data(), val.data(), std::min<std::size_t>(val.size(), 16));
          r.seen.emplace_back(decode_key(v.get_key()), decode(copy.data(), val.size() <= 16 ? val.size() : 0));
          return r.seen.size() >= lim;  // runaway guard
        };
        // every scan entry point, each time over the whole key space (so that the projection on every key is a get)
        auto api = w.prng.below(4);
        for (const u64 kk : rc.keys) if (kk == ~u64{0}) api = 0;  // scan_range's end bound is exclusive
        r.call = stamp(); lib_enter();
        if (api == 0) rc.db.scan(fn, true);
        else if (api == 1) rc.db.scan(fn, false);
        else if (api == 2) rc.db.scan_from(u64{0}, fn, true);
        else rc.db.scan_range(u64{0}, ~u64{0}, fn);
        lib_leave(); r.ret = stamp();
        r.ok = true;
        check_held(w, "scan", 0, true);
        break;
      }
      default:
        do_get(rc, w, r, true);
    }
    w.out.push_back(std::move(r));
    w.finished.fetch_add(1, std::memory_order_relaxed);
  }
  w.cur.store(-1, std::memory_order_relaxed);
  w.done.store(true, std::memory_order_release);
}

// ------------------------------------------------------------------- generation
// Keys share everything but one byte (last, middle or first: inner nodes with long,
// short or no compressed path); optionally pairs additionally differ in the last byte
// (two levels). Ballast keys (20% of rounds; never operated on) differ in the same byte
// and size the branching node near 4/16/48 children so that inserts and removes of the
// active keys grow and shrink it across every node type.
void make_universe(round_ctx& rc, vh::rng& r) {
  const u64 base = r.next();
  static const int shifts[] = {0, 0, 24, 32, 56};
  const int sh = shifts[r.below(5)];
  const bool paired = sh != 0 && r.chance(0.4);
  std::array<unsigned, 256> d{};
  for (unsigned i = 0; i < 256; ++i) d[i] = i;
  for (unsigned i = 255; i > 0; --i) std::swap(d[i], d[r.below(i + 1)]);
  rc.nactive = r.range(2, 8);
  const std::size_t ndist = paired ? (rc.nactive + 1) / 2 : rc.nactive;
  std::size_t ballast = 0;
  if (r.chance(0.2)) {
    static const std::size_t targets[] = {4, 16, 48};
    const auto t = targets[r.below(3)];
    const auto sub = r.below(ndist + 1);
    ballast = t > sub ? t - sub : 0;
  }
  const u64 cleared = base & ~(u64{0xFF} << sh);
  for (std::size_t i = 0; i < rc.nactive; ++i) {
    u64 k = cleared | (static_cast<u64>(d[paired ? i / 2 : i]) << sh);
    if (paired) k ^= (i & 1);
    rc.keys.push_back(k);
  }
  for (std::size_t i = 0; i < ballast; ++i) rc.keys.push_back(cleared | (static_cast<u64>(d[ndist + i]) << sh));
  rc.initial.assign(rc.keys.size(), 0);
  const double p = r.chance(0.2) ? (r.chance(0.5) ? 0.0 : 1.0) : 0.5;
  for (std::size_t i = 0; i < rc.keys.size(); ++i) {
    if (i < rc.nactive && !r.chance(p)) continue;
    rc.initial[i] = (u64{0xFFFF} << 32) | (i + 1);
    const auto vb = encode(rc.initial[i]);
    (void)stamp();  // progress for the watchdog
    lib_enter();
    const bool ok = rc.db.insert(rc.keys[i], vb.view());
    lib_leave();
    check_held(rc.main_w, "insert", 0, true);
    if (!ok) std::abort();  // distinct keys, single-threaded
  }
}

void make_plans(round_ctx& rc, vh::rng& r) {
  const u64 T = r.range(2, g_cfg.threads_max);
  const int hot = static_cast<int>(r.below(rc.nactive));
  static const double hot_ps[] = {0.0, 0.5, 0.9};
  const double hot_p = hot_ps[r.below(3)];
  for (u64 t = 0; t < T; ++t) {
    auto w = std::make_unique<worker>();
    w->id = static_cast<int>(t);
    w->prng.reseed(r.next());
    const u64 n = r.range(2, g_cfg.ops_max);
    for (u64 i = 0; i < n; ++i) {
      const u64 x = r.below(100);
      planned p{};
      p.kind = x < 28 ? K_INSERT : x < 52 ? K_REMOVE : x < 83 ? K_GET : x < 91 ? K_EMPTY : x < 95 ? K_SCAN : x < 97 ? K_CLEAR : x < 99 ? K_STATS : K_DUMP;
      p.key = p.kind >= K_EMPTY ? -1 : r.chance(hot_p) ? hot : static_cast<int>(r.below(rc.nactive));
      w->plan.push_back(p);
    }
    w->out.reserve(n);
    rc.w.push_back(std::move(w));
  }
}

// -------------------------------------------------------------------- evaluation
json hex_keys(const round_ctx& rc) {
  json a = json::array();
  for (const auto k : rc.keys) a.push(vh::hex64(k));
  return a;
}

json round_json(const round_ctx& rc, u64 c, const std::vector<const rec*>& all) {
  json ops = json::array();
  auto sorted = all;
  std::sort(sorted.begin(), sorted.end(), [](const rec* a, const rec* b) { return a->call < b->call; });
  for (const rec* o : sorted) {
    json j = json::object();
    j.set("t", o->thread).set("op", kNames[o->kind]);
    if (o->key >= 0) j.set("key", o->key);
    j.set("call", o->call).set("ret", o->ret).set("ok", o->ok);
    if (o->kind == K_INSERT || (o->kind == K_GET && o->ok)) j.set("value", vh::hex64(o->value));
    if (o->hold_end != 0) j.set("hold_end", o->hold_end);
    if (o->kind == K_SCAN) j.set("seen", static_cast<u64>(o->seen.size()));
    ops.push(std::move(j));
  }
  json ini = json::array();
  for (const auto v : rc.initial) ini.push(vh::hex64(v));
  return json::object().set("case", c).set("threads", static_cast<u64>(rc.w.size())).set("universe", hex_keys(rc))
      .set("active", static_cast<u64>(rc.nactive)).set("initial", std::move(ini)).set("ops", std::move(ops));
}

inline bool intersects(const rec& a, const rec& b) noexcept { return a.call < b.ret && b.call < a.ret; }

// Was key [ki] definitely present (want=true) / absent (want=false) during the whole of e?
// Some establishing event (initial state = virtual op at stamp 0, or a successful
// insert/remove that returned before e was called) and no opposing operation, whatever
// its result, that could take effect after the establishing one and before e returned.
bool definitely(const round_ctx& rc, const std::vector<const rec*>& all, std::size_t ki, const rec& e, bool want) {
  const int est = want ? K_INSERT : K_REMOVE, opp = want ? K_REMOVE : K_INSERT;
  const auto clean_since = [&](u64 since_call) {
    for (const rec* o : all) {
      if (o->kind == opp && o->key == static_cast<int>(ki) && o->call < e.ret && o->ret > since_call) return false;
      if (want && o->kind == K_CLEAR && o->call < e.ret && o->ret > since_call) return false;  // a clear opposes presence of every key
    }
    return true;
  };
  if ((rc.initial[ki] != 0) == want && clean_since(0)) return true;
  for (const rec* o : all) {
    if (o->kind == est && o->key == static_cast<int>(ki) && o->ok && o->ret < e.call && clean_since(o->call)) return true;
    if (!want && o->kind == K_CLEAR && o->ret < e.call && clean_since(o->call)) return true;  // a clear establishes absence of every key
  }
  return false;
}

void evaluate(round_ctx& rc, u64 c) {
  const worker& snap = rc.main_w;
  const int T = static_cast<int>(rc.w.size());
  std::vector<const rec*> all;  // workers' operations, then the snapshot
  for (const auto& w : rc.w) for (const auto& o : w->out) all.push_back(&o);
  const std::size_t nworker_ops = all.size();
  for (const auto& o : snap.out) all.push_back(&o);
  const auto witness_base = [&] { return json::object().set("universe", hex_keys(rc)).set("active", static_cast<u64>(rc.nactive)).set("threads", T); };

  // --- violations found by the threads themselves (handle and lock monitors)
  u64 rereads = snap.rereads, lock_checks = snap.lock_checks;
  const auto merge = [&](const worker& w) {
    for (const auto& v : w.viol) rep().violation("C13", v.first, v.second, witness_base().set("thread", w.id).set("round", round_json(rc, c, all)));
  };
  for (const auto& w : rc.w) { merge(*w); rereads += w->rereads; lock_checks += w->lock_checks; }
  merge(snap);

  // --- linearizability, key by key
  std::unordered_map<u64, std::size_t> index;
  for (std::size_t i = 0; i < rc.keys.size(); ++i) index[rc.keys[i]] = i;
  for (const rec* o : all) {
    if (o->kind != K_SCAN) continue;
    std::vector<bool> dup(rc.keys.size(), false);
    for (const auto& kv : o->seen) {
      const auto it = index.find(kv.first);
      if (it != index.end() && !dup[it->second]) { dup[it->second] = true; continue; }
      rep().violation("C13", "mutex_lin/lin/not-linearizable", "scan delivered a key that was never inserted, or a key twice",
                      witness_base().set("key", vh::hex64(kv.first)).set("round", round_json(rc, c, all)));
      break;
    }
  }
  u64 lin_nodes = 0;
  for (std::size_t ki = 0; ki < rc.keys.size(); ++ki) {
    std::vector<vl::op> h;
    for (const rec* o : all) {
      vl::op x;
      x.thread = o->thread; x.call = o->call; x.ret = o->ret;
      if (o->kind <= K_GET) {
        if (o->key != static_cast<int>(ki)) continue;
        x.kind = o->kind; x.ok = o->ok; x.value = o->value;
        x.tag = o->thread == T ? 2 : 0;
      } else if (o->kind == K_CLEAR) {  // whole-index operation: on this key an unconditional removal
        x.kind = vl::CLEAR; x.ok = true; x.tag = 3;
      } else if (o->kind == K_SCAN) {  // atomic snapshot: its projection on this key is a get
        x.kind = vl::GET; x.tag = 1;
        for (const auto& kv : o->seen) if (kv.first == rc.keys[ki]) { x.ok = true; x.value = kv.second; break; }
      } else {
        continue;
      }
      h.push_back(x);
    }
    const auto v = vl::checker::check(h, rc.initial[ki]);
    lin_nodes += v.nodes;
    rep().count("lin_checks");
    if (v.linearizable) continue;
    if (v.inconclusive) { rep().inconclusive("mutex_lin: linearizability search gave up (case " + std::to_string(c) + ", " + std::to_string(h.size()) + " ops on one key)"); continue; }
    std::sort(h.begin(), h.end(), [](const vl::op& a, const vl::op& b) { return a.call < b.call; });
    json hist = json::array();
    for (const auto& x : h) hist.push(x.to_json());
    rep().violation("C13", "mutex_lin/lin/not-linearizable", "no sequential order of the operations on one key explains their results",
                    witness_base().set("key", vh::hex64(rc.keys[ki])).set("key_index", static_cast<u64>(ki)).set("initial", rc.initial[ki]).set("history", std::move(hist)));
  }

  // --- empty()
  for (const rec* e : all) {
    if (e->kind != K_EMPTY) continue;
    if (e->ok) {
      for (std::size_t ki = 0; ki < rc.keys.size(); ++ki) {
        if (!definitely(rc, all, ki, *e, true)) continue;
        rep().violation("C13", "mutex_lin/empty/true-with-present-key", "empty() returned true although a key was present during the whole call",
                        witness_base().set("key", vh::hex64(rc.keys[ki])).set("empty_call", e->call).set("empty_ret", e->ret).set("round", round_json(rc, c, all)));
        break;
      }
    } else {
      bool all_absent = true;
      for (std::size_t ki = 0; ki < rc.keys.size() && all_absent; ++ki) all_absent = definitely(rc, all, ki, *e, false);
      if (all_absent)
        rep().violation("C13", "mutex_lin/empty/false-with-all-absent", "empty() returned false although every key was absent during the whole call",
                        witness_base().set("empty_call", e->call).set("empty_ret", e->ret).set("round", round_json(rc, c, all)));
    }
  }

  // --- hold windows and overlap evidence (workers only: the snapshot is sequential)
  u64 blocked = 0, called_inside = 0, overlap_pairs = 0;
  bool hold_overlap = false;
  for (std::size_t i = 0; i < nworker_ops; ++i) {
    const rec& hrec = *all[i];
    if (hrec.hold_end == 0) continue;
    for (std::size_t j = 0; j < nworker_ops; ++j) {
      const rec& o = *all[j];
      if (o.thread == hrec.thread) continue;
      if (o.call > hrec.ret && o.ret < hrec.hold_end)  // both stamps strictly inside
        rep().violation("C13", "mutex_lin/hold-window/op-completed-inside-hold",
                        std::string(kNames[o.kind]) + " of another thread was called and returned while a get handle was held",
                        witness_base().set("holder", hrec.thread).set("hold_start", hrec.ret).set("hold_end", hrec.hold_end)
                            .set("intruder", o.thread).set("call", o.call).set("ret", o.ret).set("round", round_json(rc, c, all)));
      if (o.call < hrec.ret && o.ret > hrec.hold_end) ++blocked;
      if (o.call > hrec.ret && o.call < hrec.hold_end && o.ret > hrec.hold_end) ++called_inside;
      if (o.call < hrec.hold_end && o.ret > hrec.ret) hold_overlap = true;
    }
  }
  for (std::size_t i = 0; i < nworker_ops; ++i)
    for (std::size_t j = i + 1; j < nworker_ops; ++j) {
      const rec &a = *all[i], &b = *all[j];
      if (a.thread != b.thread && a.key >= 0 && a.key == b.key && intersects(a, b)) ++overlap_pairs;
    }

  // --- evidence
  u64 hsh = vh::hash_combine(rc.keys.size(), rc.nactive);
  for (std::size_t i = 0; i < rc.keys.size(); ++i) hsh = vh::hash_combine(vh::hash_combine(hsh, rc.keys[i]), rc.initial[i]);
  for (const rec* o : all) {
    hsh = vh::hash_combine(hsh, (static_cast<u64>(o->thread) << 40) | (static_cast<u64>(o->kind) << 32) | (static_cast<u64>(o->key + 1) << 8) | (o->ok ? 1U : 0U));
    hsh = vh::hash_combine(hsh, o->value);
    for (const auto& kv : o->seen) hsh = vh::hash_combine(vh::hash_combine(hsh, kv.first), kv.second);
  }
  rep().evaluation(nworker_ops);
  rep().count("rounds");
  rep().count("ops", nworker_ops);
  rep().count("snapshot_ops", all.size() - nworker_ops);
  u64 cnt[12] = {};
  for (std::size_t i = 0; i < nworker_ops; ++i) {
    const rec& o = *all[i];
    switch (o.kind) {
      case K_INSERT: ++cnt[o.ok ? 0 : 1]; break;
      case K_REMOVE: ++cnt[o.ok ? 2 : 3]; break;
      case K_GET: ++cnt[o.ok ? 4 : 5]; break;
      case K_EMPTY: ++cnt[6]; if (o.ok) ++cnt[7]; break;
      case K_CLEAR: ++cnt[9]; break;
      case K_STATS: ++cnt[10]; break;
      case K_DUMP: ++cnt[11]; break;
      default: ++cnt[8];
    }
  }
  static const char* const cn[12] = {"inserts_ok", "inserts_dup", "removes_ok", "removes_absent", "gets_hit", "gets_miss", "empty_calls", "empty_true", "scans", "clears", "statistics_calls", "dumps"};
  for (int i = 0; i < 12; ++i) rep().count(cn[i], cnt[i]);
  rep().count("overlapping_pairs", overlap_pairs);
  rep().count("blocked_behind_hold", blocked);
  rep().count("called_inside_hold", called_inside);
  rep().count("lin_nodes", lin_nodes);
  rep().count("handle_rereads", rereads);
  rep().count("lock_monitor_checks", lock_checks);
  if (rc.keys.size() > rc.nactive) rep().count("rounds_with_ballast");
  if (overlap_pairs > 0 || hold_overlap) {
    rep().nontrivial(hsh);
    rep().sample(round_json(rc, c, all), 3);
  }
  if (rep().verbose) std::fprintf(stderr, "%s\n", round_json(rc, c, all).dump().c_str());
}

// Watchdog: while a round's index is in use (g_round set) every operation takes stamps, so
// a clock that stands still for hang_ms means some thread sits in the library forever (a
// lock leaked by an earlier operation blocks at the latest the leaking thread's own next
// operation). Threads cannot be joined then: write the report and leave at once.
std::atomic<round_ctx*> g_round{nullptr};
std::atomic<u64> g_case{0};

[[noreturn]] void report_hang(round_ctx& rc, u64 c) {
  json threads = json::array();
  int stuck_kind = -1;
  const auto look = [&](const worker& w, bool is_main) {
    const bool done = w.done.load(std::memory_order_acquire);
    const int cur = w.cur.load(std::memory_order_relaxed);
    if (!done && stuck_kind < 0 && cur >= 0) stuck_kind = cur;
    threads.push(json::object().set("thread", is_main ? "main" : std::to_string(w.id)).set("done", done).set("in_flight", cur >= 0 ? kNames[cur] : "-")
                     .set("completed", w.finished.load(std::memory_order_relaxed)).set("planned", static_cast<u64>(w.plan.size())));
    if (done) for (const auto& v : w.viol) rep().violation("C13", v.first, v.second, json::object().set("thread", w.id));
  };
  const int phase = rc.phase.load(std::memory_order_acquire);
  if (phase >= 2) for (const auto& w : rc.w) look(*w, false);
  look(rc.main_w, true);
  // A wall-clock observation is never a verdict (a loaded machine can stall a round): the
  // deterministic lock-leak monitor (non-TSan build) and ThreadSanitizer's double-lock report decide
  // leaked locks; this backstop only keeps a hung worker from running into the driver's watchdog.
  rep().inconclusive(std::string("mutex_lin: no operation made progress for ") + std::to_string(g_cfg.hang_ms) + " ms in round " + std::to_string(c) +
                     " (operation in flight: " + (stuck_kind >= 0 ? kNames[stuck_kind] : "unknown") + "); threads: " + threads.dump().substr(0, 600));
  (void)phase;
  rep().set_resume(c + 1);
  rep().finish();
  std::fflush(nullptr);
  ::_exit(0);
}

void watchdog() {
  using clk = std::chrono::steady_clock;
  const auto step = std::chrono::milliseconds(std::clamp<u64>(g_cfg.hang_ms / 20, 1, 100));
  u64 last_sig = 0;
  auto since = clk::now();
  for (;;) {
    std::this_thread::sleep_for(step);
    round_ctx* const rc = g_round.load(std::memory_order_acquire);
    const u64 c = g_case.load(std::memory_order_relaxed);
    const u64 sig = rc == nullptr ? 0 : (vh::hash_combine(c, g_clock.load(std::memory_order_relaxed)) | 1);
    const auto now = clk::now();
    if (rc == nullptr || sig != last_sig) { last_sig = sig; since = now; continue; }
    if (now - since > std::chrono::milliseconds(g_cfg.hang_ms)) report_hang(*rc, c);
  }
}

void run_round(u64 c) {
  vh::rng r(vh::case_seed(rep().seed, c, 0xC13));
  auto* rcp = new round_ctx;  // deliberately leaked on the hang path (threads still use it)
  round_ctx& rc = *rcp;
  g_clock.store(1, std::memory_order_relaxed);
  g_case.store(c, std::memory_order_relaxed);
  g_round.store(rcp, std::memory_order_release);
  rc.main_w.cur.store(K_INSERT, std::memory_order_relaxed);
  make_universe(rc, r);
  rc.main_w.cur.store(-1, std::memory_order_relaxed);
  rc.phase.store(1, std::memory_order_release);
  make_plans(rc, r);
  rc.phase.store(2, std::memory_order_release);
  const int T = static_cast<int>(rc.w.size());
  for (auto& w : rc.w) w->th = std::thread(run_worker, std::ref(rc), std::ref(*w));
  while (rc.ready.load(std::memory_order_relaxed) != T) ::sched_yield();
  rc.go.store(1, std::memory_order_relaxed);  // thread creation already ordered the setup before the workers
  for (auto& w : rc.w) w->th.join();

  // final snapshot: sequential operations stamped after everything else
  worker& snap = rc.main_w;
  snap.id = T;
  snap.prng.reseed(r.next());
  for (std::size_t ki = 0; ki < rc.keys.size(); ++ki) {
    rec g;
    g.kind = K_GET; g.key = static_cast<int>(ki); g.thread = T;
    snap.cur.store(K_GET, std::memory_order_relaxed);
    do_get(rc, snap, g, false);
    snap.out.push_back(std::move(g));
  }
  rec e;
  e.kind = K_EMPTY; e.thread = T;
  snap.cur.store(K_EMPTY, std::memory_order_relaxed);
  e.call = stamp(); lib_enter();
  e.ok = rc.db.empty();
  lib_leave(); e.ret = stamp();
  check_held(snap, "empty", 0, true);
  snap.out.push_back(std::move(e));
  snap.cur.store(-1, std::memory_order_relaxed);
  g_round.store(nullptr, std::memory_order_release);  // evaluation takes no stamps: watchdog off

  evaluate(rc, c);
  delete rcp;
}

}  // namespace

int main(int argc, char** argv) {
  const vh::args a(argc, argv);
  rep().init(a, "mutex_lin");
  g_cfg.threads_max = std::clamp<u64>(a.num("threads-max", 8), 2, 64);
  g_cfg.ops_max = std::clamp<u64>(a.num("ops-max", 6), 2, 1000);
  g_cfg.hang_ms = std::max<u64>(a.num("hang-ms", 60000), 100);
  lm::active = lockmon_selftest();
#if MLIN_TSAN
  rep().note("lock_monitor", "off: ThreadSanitizer build (TSan's own mutex checks apply)");
#else
  rep().note("lock_monitor", lm::active ? "on: pthread_mutex_* interposition verified by self-test" : "off: self-test failed");
  if (!lm::active) rep().inconclusive("mutex_lin: pthread_mutex_* interposition does not intercept std::mutex in this build; lock-leak monitor inactive (only the hang backstop remains)");
#endif
  std::thread(watchdog).detach();
  const vh::case_range cr(a);
  for (u64 c = cr.begin; c < cr.end; ++c) {
    rep().progress_case(c, "round");
    run_round(c);
    if (rep().violations_for("C13") >= 12) break;
  }
  rep().finish();
  return 0;
}
