// E4 codec: sweeps of unodb::key_encoder / key_decoder against oracles written
// independently of the encoder's bit tricks.
//   --mode order      C11  order preservation
//   --mode roundtrip  C12  decode(encode(v)) == v, sizes, encoder reuse/growth
//   --mode prefix     C15  equality <=> normalised equality, prefix freedom,
//                          text read/emit bounds (guard page), real index use
// A "case" is a task index; task tables below map indices to domain chunks.
#include "global.hpp"

#include <setjmp.h>
#include <signal.h>
#include <sys/mman.h>

#include <cmath>
#include <cstring>
#include <limits>
#include <map>
#include <string>
#include <vector>

#include "art.hpp"
#include "art_common.hpp"
#include "art_internal.hpp"
#include "common/vh.hpp"

using vh::json;
using vh::rep;
using vh::u64;

namespace {

const char* g_prop = "C11";
u64 g_stride = 1;  // 1 = exhaustive inside a chunk

std::string enc_bytes(const unodb::key_encoder& e) {
  const auto kv = e.get_key_view();
  return std::string(reinterpret_cast<const char*>(kv.data()), kv.size());
}

// Comparison exactly as the index does it, cross-checked with memcmp order.
int index_compare(const std::string& a, const std::string& b) {
  const unodb::key_view ka{reinterpret_cast<const std::byte*>(a.data()), a.size()};
  const unodb::key_view kb{reinterpret_cast<const std::byte*>(b.data()), b.size()};
  const int c = unodb::detail::compare(ka, kb);
  const std::size_t n = std::min(a.size(), b.size());
  int m = std::memcmp(a.data(), b.data(), n);
  if (m == 0) m = a.size() < b.size() ? -1 : (a.size() > b.size() ? 1 : 0);
  const auto sgn = [](int x) { return x < 0 ? -1 : (x > 0 ? 1 : 0); };
  if (sgn(c) != sgn(m)) {
    rep().violation(g_prop, "codec/compare/disagrees-with-memcmp", "unodb::detail::compare disagrees with memcmp order",
                    json::object().set("a", vh::hex(a)).set("b", vh::hex(b)));
  }
  return sgn(c);
}

template <class T>
std::string enc1(T v) {
  unodb::key_encoder e;
  e.encode(v);
  return enc_bytes(e);
}

template <class T>
const char* tname();
template <> const char* tname<std::int8_t>() { return "int8"; }
template <> const char* tname<std::uint8_t>() { return "uint8"; }
template <> const char* tname<std::int16_t>() { return "int16"; }
template <> const char* tname<std::uint16_t>() { return "uint16"; }
template <> const char* tname<std::int32_t>() { return "int32"; }
template <> const char* tname<std::uint32_t>() { return "uint32"; }
template <> const char* tname<std::int64_t>() { return "int64"; }
template <> const char* tname<std::uint64_t>() { return "uint64"; }
template <> const char* tname<float>() { return "float"; }
template <> const char* tname<double>() { return "double"; }

template <class T>
json val_json(T v) {
  if constexpr (std::is_floating_point_v<T>) {
    using U = std::conditional_t<sizeof(T) == 4, std::uint32_t, std::uint64_t>;
    U u;
    std::memcpy(&u, &v, sizeof u);
    return json::object().set("bits", vh::hex64(u)).set("approx", static_cast<double>(v));
  } else if constexpr (std::is_signed_v<T>) {
    return json(static_cast<long long>(v));
  } else {
    return json(static_cast<unsigned long long>(v));
  }
}

// ------------------------------------------------------- integer oracles
// Oracle order for integers is the language's own comparison.
template <class T>
void check_int_pair(T a, T b) {
  const auto ea = enc1(a), eb = enc1(b);
  const int want = a < b ? -1 : (a > b ? 1 : 0);
  const int got = index_compare(ea, eb);
  rep().evaluation();
  if (ea.size() != sizeof(T) || eb.size() != sizeof(T)) {
    rep().violation(g_prop, std::string("codec/size/") + tname<T>(), "fixed-size component does not occupy sizeof bytes",
                    json::object().set("value", val_json(a)).set("size", static_cast<u64>(ea.size())));
  }
  if (want != got) {
    rep().violation(g_prop, std::string("codec/order/") + tname<T>(), "encoding order differs from numeric order",
                    json::object().set("a", val_json(a)).set("b", val_json(b)).set("enc_a", vh::hex(ea)).set("enc_b", vh::hex(eb)).set("want", want).set("got", got));
  }
}

// successor sweep over [lo, hi] (inclusive), stepping `stride`; each visited v
// is compared with v+1.
template <class T>
void sweep_int(long double lo, long double hi, u64 stride, vh::rng& r) {
  using W = std::conditional_t<std::is_signed_v<T>, __int128, unsigned __int128>;
  W v = static_cast<W>(lo);
  const W end = static_cast<W>(hi);
  const W tmax = static_cast<W>(std::numeric_limits<T>::max());
  u64 n = 0;
  while (v <= end) {
    if (v < tmax) {
      check_int_pair<T>(static_cast<T>(v), static_cast<T>(v + 1));
      ++n;
    }
    if (stride == 1) v += 1;
    else v += static_cast<W>(1 + r.below(2 * stride - 1));  // mean = stride
  }
  rep().nontrivial_counted(n);
}

template <class T>
std::vector<T> int_boundaries() {
  using U = std::make_unsigned_t<T>;
  std::vector<T> out;
  const int bits = sizeof(T) * 8;
  for (int p = 0; p < bits; ++p) {
    const U base = static_cast<U>(U{1} << p);
    for (int d = -3; d <= 3; ++d) {
      out.push_back(static_cast<T>(static_cast<U>(base + static_cast<U>(d))));
      out.push_back(static_cast<T>(static_cast<U>(~base + static_cast<U>(d))));
      out.push_back(static_cast<T>(static_cast<U>((base << 1) - base / 2 + static_cast<U>(d))));
    }
  }
  for (int byte = 0; byte < static_cast<int>(sizeof(T)); ++byte) {
    for (const unsigned k : {0U, 1U, 2U, 0x7EU, 0x7FU, 0x80U, 0x81U, 0xFEU, 0xFFU}) {
      const U base = static_cast<U>(static_cast<U>(k) << (8 * byte));
      for (int d = -2; d <= 2; ++d) out.push_back(static_cast<T>(static_cast<U>(base + static_cast<U>(d))));
    }
  }
  out.push_back(std::numeric_limits<T>::min());
  out.push_back(std::numeric_limits<T>::max());
  out.push_back(0);
  return out;
}

// structured + random checks for wide integer types
template <class T>
void structured_int(vh::rng& r, u64 random_pairs) {
  const auto b = int_boundaries<T>();
  u64 n = 0;
  for (const T v : b) {
    for (int d = -64; d <= 64; ++d) {
      using U = std::make_unsigned_t<T>;
      const T w = static_cast<T>(static_cast<U>(v) + static_cast<U>(d));
      if (w != std::numeric_limits<T>::max()) {
        check_int_pair<T>(w, static_cast<T>(w + 1));
        ++n;
      }
    }
  }
  for (std::size_t i = 0; i < b.size(); ++i) {
    const T x = b[i], y = b[r.below(b.size())];
    check_int_pair<T>(x, y);
    if (x != y) ++n;
  }
  for (u64 i = 0; i < random_pairs; ++i) {
    using U = std::make_unsigned_t<T>;
    T x = static_cast<T>(static_cast<U>(r.next()));
    T y;
    switch (r.below(4)) {
      case 0: y = static_cast<T>(static_cast<U>(r.next())); break;
      case 1: y = static_cast<T>(static_cast<U>(x) ^ (U{1} << r.below(sizeof(T) * 8))); break;   // one bit differs
      case 2: y = static_cast<T>(static_cast<U>(x) + static_cast<U>(r.below(512)) - 256); break;  // near
      default: {  // shares the top bytes
        const int keep = static_cast<int>(r.below(sizeof(T))) * 8;
        const U mask = keep == 0 ? U{0} : static_cast<U>(~U{0} << (sizeof(T) * 8 - keep));
        y = static_cast<T>((static_cast<U>(x) & mask) | (static_cast<U>(r.next()) & ~mask));
      }
    }
    check_int_pair<T>(x, y);
    if (x != y) rep().nontrivial(vh::hash_combine(static_cast<u64>(x), static_cast<u64>(y)));
  }
  rep().nontrivial_counted(n);
}

// --------------------------------------------------- floating-point oracle
// IEEE total order as the property words it, by explicit case analysis:
// NaN above everything and all NaNs equal; otherwise < / >; ties (only -0 / +0)
// broken by sign bit, -0 < +0.
template <class F>
int fp_oracle(F a, F b) {
  const bool na = std::isnan(a), nb = std::isnan(b);
  if (na || nb) return na && nb ? 0 : (na ? 1 : -1);
  if (a < b) return -1;
  if (a > b) return 1;
  const bool sa = std::signbit(a), sb = std::signbit(b);
  if (sa == sb) return 0;
  return sa ? -1 : 1;
}

template <class F>
void check_fp_pair(F a, F b) {
  const auto ea = enc1(a), eb = enc1(b);
  const int want = fp_oracle(a, b);
  const int got = index_compare(ea, eb);
  rep().evaluation();
  if (ea.size() != sizeof(F)) {
    rep().violation(g_prop, std::string("codec/size/") + tname<F>(), "fixed-size component does not occupy sizeof bytes",
                    json::object().set("value", val_json(a)).set("size", static_cast<u64>(ea.size())));
  }
  if (want != got) {
    rep().violation(g_prop, std::string("codec/order/") + tname<F>(), "encoding order differs from the floating-point total order",
                    json::object().set("a", val_json(a)).set("b", val_json(b)).set("enc_a", vh::hex(ea)).set("enc_b", vh::hex(eb)).set("want", want).set("got", got));
  }
}

template <class F>
struct fp_traits;
template <> struct fp_traits<float> { using U = std::uint32_t; static constexpr U inf_mag = 0x7F800000U; static constexpr U sign = 0x80000000U; };
template <> struct fp_traits<double> { using U = std::uint64_t; static constexpr U inf_mag = 0x7FF0000000000000ULL; static constexpr U sign = 0x8000000000000000ULL; };

template <class F>
F from_bits(typename fp_traits<F>::U u) { F f; std::memcpy(&f, &u, sizeof f); return f; }
template <class F>
typename fp_traits<F>::U to_bits(F f) { typename fp_traits<F>::U u; std::memcpy(&u, &f, sizeof u); return u; }

// The successor of a non-NaN value in the total order, computed with libm's
// nextafter (independent of the encoder), with the two zeros kept distinct.
template <class F>
F fp_succ(F x) {
  using T = fp_traits<F>;
  if (x == 0 && std::signbit(x)) return from_bits<F>(0);  // -0 -> +0
  if (to_bits(x) == T::inf_mag) return std::numeric_limits<F>::quiet_NaN();  // +inf -> NaN class
  const F y = std::nextafter(x, std::numeric_limits<F>::infinity());
  if (y == 0 && x < 0) return from_bits<F>(T::sign);  // -denorm_min -> -0
  return y;
}

// sweep magnitudes [m0, m1] of one sign in ascending value order
template <class F>
void sweep_fp(bool negative, typename fp_traits<F>::U m0, typename fp_traits<F>::U m1, u64 stride, vh::rng& r) {
  using T = fp_traits<F>;
  using U = typename T::U;
  u64 n = 0;
  U m = m0;
  while (true) {
    const U bits = negative ? static_cast<U>(T::sign | m) : m;
    const F x = from_bits<F>(bits);
    const F y = fp_succ(x);
    // sanity of the enumeration itself (harness self-check, not a verdict on unodb)
    if (!std::isnan(y) && fp_oracle(x, y) != -1) {
      rep().inconclusive("floating-point successor enumeration is not ascending; harness bug");
      return;
    }
    check_fp_pair<F>(x, y);
    ++n;
    U step = 1;
    if (stride != 1) step = static_cast<U>(1 + r.below(2 * stride - 1));
    if (m1 - m < step) break;
    m += step;
  }
  rep().nontrivial_counted(n);
}

// every NaN bit pattern in [m0,m1] (magnitude > inf_mag) encodes like the canonical NaN
template <class F>
void sweep_nan(typename fp_traits<F>::U m0, typename fp_traits<F>::U m1, u64 stride, vh::rng& r) {
  using T = fp_traits<F>;
  using U = typename T::U;
  const auto canon = enc1(std::numeric_limits<F>::quiet_NaN());
  const auto einf = enc1(std::numeric_limits<F>::infinity());
  if (index_compare(einf, canon) >= 0)
    rep().violation(g_prop, std::string("codec/order/nan-not-above-inf/") + tname<F>(), "NaN does not sort above +inf");
  u64 n = 0;
  U m = m0;
  while (true) {
    for (const U s : {U{0}, T::sign}) {
      const F x = from_bits<F>(static_cast<U>(s | m));
      const auto e = enc1(x);
      rep().evaluation();
      ++n;
      if (e != canon)
        rep().violation(g_prop, std::string("codec/order/nan-not-unified/") + tname<F>(), "two NaNs encode differently",
                        json::object().set("nan", val_json(x)).set("enc", vh::hex(e)).set("canonical", vh::hex(canon)));
    }
    U step = 1;
    if (stride != 1) step = static_cast<U>(1 + r.below(2 * stride - 1));
    if (m1 - m < step) break;
    m += step;
  }
  rep().nontrivial_counted(n);
}

template <class F>
std::vector<F> fp_specials() {
  using T = fp_traits<F>;
  using U = typename T::U;
  std::vector<F> v;
  const int mant_bits = sizeof(F) == 4 ? 23 : 52;
  const int exp_max = sizeof(F) == 4 ? 255 : 2047;
  for (int e = 0; e <= exp_max; ++e) {
    if (sizeof(F) == 8 && e > 4 && e < exp_max - 4 && (e % 97) != 0 && (e < 1019 || e > 1028)) continue;
    for (const U mant : {U{0}, U{1}, U{2}, static_cast<U>((U{1} << mant_bits) - 1), static_cast<U>((U{1} << mant_bits) - 2), static_cast<U>(U{1} << (mant_bits - 1)), static_cast<U>((U{1} << (mant_bits - 1)) + 1), static_cast<U>((U{1} << (mant_bits - 1)) - 1)}) {
      const U mag = static_cast<U>((static_cast<U>(e) << mant_bits) | mant);
      v.push_back(from_bits<F>(mag));
      v.push_back(from_bits<F>(static_cast<U>(T::sign | mag)));
    }
  }
  return v;
}

template <class F>
void structured_fp(vh::rng& r, u64 random_pairs) {
  const auto sp = fp_specials<F>();
  u64 n = 0;
  for (const F x : sp) {
    if (std::isnan(x)) {
      check_fp_pair<F>(x, std::numeric_limits<F>::infinity());
      check_fp_pair<F>(x, std::numeric_limits<F>::quiet_NaN());
      continue;
    }
    F y = x;
    for (int k = 0; k < 40 && !std::isnan(y); ++k) {  // 40 successors upwards
      const F z = fp_succ(y);
      check_fp_pair<F>(y, z);
      ++n;
      y = z;
    }
    check_fp_pair<F>(x, r.pick(sp));
  }
  rep().nontrivial_counted(n);
  using U = typename fp_traits<F>::U;
  for (u64 i = 0; i < random_pairs; ++i) {
    const U a = static_cast<U>(r.next());
    U b;
    switch (r.below(4)) {
      case 0: b = static_cast<U>(r.next()); break;
      case 1: b = static_cast<U>(a ^ (U{1} << r.below(sizeof(U) * 8))); break;
      case 2: b = static_cast<U>(a + static_cast<U>(r.below(64)) - 32); break;
      default: b = static_cast<U>(a ^ fp_traits<F>::sign); break;
    }
    check_fp_pair<F>(from_bits<F>(a), from_bits<F>(b));
    if (a != b) rep().nontrivial(vh::hash_combine(a, b));
  }
}

// ------------------------------------------------------------ text oracle
constexpr std::size_t kMaxlen = unodb::key_encoder::maxlen;

std::string normalise_text(std::string t) {
  if (t.size() > kMaxlen) t.resize(kMaxlen);
  while (!t.empty() && t.back() == '\0') t.pop_back();
  return t;
}

int oracle_text_cmp(const std::string& a, const std::string& b) {
  const auto na = normalise_text(a), nb = normalise_text(b);
  const std::size_t n = std::min(na.size(), nb.size());
  for (std::size_t i = 0; i < n; ++i) {
    const auto x = static_cast<unsigned char>(na[i]), y = static_cast<unsigned char>(nb[i]);
    if (x != y) return x < y ? -1 : 1;
  }
  return na.size() < nb.size() ? -1 : (na.size() > nb.size() ? 1 : 0);
}

std::string enc_text(const std::string& t) {
  unodb::key_encoder e;
  e.encode_text(std::span<const std::byte>(reinterpret_cast<const std::byte*>(t.data()), t.size()));
  return enc_bytes(e);
}

void check_text_pair(const std::string& a, const std::string& b) {
  const auto ea = enc_text(a), eb = enc_text(b);
  const int want = oracle_text_cmp(a, b);
  const int got = index_compare(ea, eb);
  rep().evaluation();
  if (want != got) {
    rep().violation(g_prop, "codec/order/text", "text encoding order differs from byte order of the normalised texts",
                    json::object().set("a_len", static_cast<u64>(a.size())).set("b_len", static_cast<u64>(b.size()))
                        .set("a_head", vh::hex(a.substr(0, 16))).set("b_head", vh::hex(b.substr(0, 16)))
                        .set("a_tail", vh::hex(a.size() > 16 ? a.substr(a.size() - 16) : a)).set("b_tail", vh::hex(b.size() > 16 ? b.substr(b.size() - 16) : b))
                        .set("want", want).set("got", got));
  }
  if (want != 0) rep().nontrivial(vh::hash_combine(vh::hash_str(a), vh::hash_str(b)));
}

std::vector<std::string> small_texts(int maxlen) {
  const char alpha[3] = {'\x01', '\x02', '\xFF'};
  std::vector<std::string> out{""};
  std::size_t lo = 0;
  for (int len = 1; len <= maxlen; ++len) {
    const std::size_t hi = out.size();
    for (std::size_t i = lo; i < hi; ++i)
      for (const char c : alpha) out.push_back(out[i] + c);
    lo = hi;
  }
  return out;
}

std::string random_text(vh::rng& r, std::size_t len, bool small_alpha) {
  std::string t(len, '\0');
  for (auto& c : t) c = small_alpha ? "\x01\x02\xFF"[r.below(3)] : static_cast<char>(1 + r.below(255));
  return t;
}

// texts around the truncation boundary, and far beyond it (lengths that do not fit the
// 16-bit size type: 65536 and up), together with a few short texts sharing the same head
std::vector<std::string> boundary_texts(vh::rng& r) {
  std::vector<std::string> out;
  const std::string base = random_text(r, kMaxlen + 8, r.chance(0.5));
  {
    const std::string longer = base + random_text(r, 140000 - base.size(), false);
    for (const std::size_t len : {std::size_t{65536}, std::size_t{65537}, std::size_t{65541}, std::size_t{65536 + 300}, std::size_t{131072}, std::size_t{131072 + 7}, std::size_t{140000}}) out.push_back(longer.substr(0, len));
    out.push_back(std::string());
    out.push_back(base.substr(0, 1));
    out.push_back(base.substr(0, 5));
    out.push_back(base.substr(0, 300));
    std::string other = longer.substr(0, 65536);
    other[0] = static_cast<char>(static_cast<unsigned char>(other[0]) ^ 0x40U ? static_cast<unsigned char>(other[0]) ^ 0x40U : 1);
    out.push_back(other);
  }
  for (long d = -3; d <= 3; ++d) {
    std::string t = base.substr(0, static_cast<std::size_t>(static_cast<long>(kMaxlen) + d));
    out.push_back(t);
    // vary the bytes right at the boundary
    for (const long pos : {static_cast<long>(kMaxlen) - 2, static_cast<long>(kMaxlen) - 1, static_cast<long>(kMaxlen), static_cast<long>(kMaxlen) + 1}) {
      if (pos >= 0 && static_cast<std::size_t>(pos) < t.size()) {
        std::string u = t;
        u[static_cast<std::size_t>(pos)] = static_cast<char>(1 + r.below(255));
        out.push_back(u);
      }
    }
    // trailing zero padding that straddles the boundary
    for (const std::size_t z : {std::size_t{1}, std::size_t{2}, std::size_t{5}}) {
      if (t.size() > z) {
        std::string u = t;
        for (std::size_t i = 0; i < z; ++i) u[u.size() - 1 - i] = '\0';
        out.push_back(u);
      }
    }
  }
  return out;
}

// ------------------------------------------------------------------ tuples
enum ctype { I8, U8, I16, U16, I32, U32, I64, U64, F32, F64, TXT, CT_COUNT };

struct comp {
  ctype t{I8};
  u64 bits{0};      // integers and floats, by bit pattern
  std::string txt;  // TXT
};

void encode_comp(unodb::key_encoder& e, const comp& c) {
  switch (c.t) {
    case I8: e.encode(static_cast<std::int8_t>(c.bits)); break;
    case U8: e.encode(static_cast<std::uint8_t>(c.bits)); break;
    case I16: e.encode(static_cast<std::int16_t>(c.bits)); break;
    case U16: e.encode(static_cast<std::uint16_t>(c.bits)); break;
    case I32: e.encode(static_cast<std::int32_t>(c.bits)); break;
    case U32: e.encode(static_cast<std::uint32_t>(c.bits)); break;
    case I64: e.encode(static_cast<std::int64_t>(c.bits)); break;
    case U64: e.encode(static_cast<std::uint64_t>(c.bits)); break;
    case F32: e.encode(from_bits<float>(static_cast<std::uint32_t>(c.bits))); break;
    case F64: e.encode(from_bits<double>(c.bits)); break;
    case TXT: e.encode_text(std::span<const std::byte>(reinterpret_cast<const std::byte*>(c.txt.data()), c.txt.size())); break;
    default: break;
  }
}

int oracle_comp_cmp(const comp& a, const comp& b) {
  const auto sg = [](auto x, auto y) { return x < y ? -1 : (x > y ? 1 : 0); };
  switch (a.t) {
    case I8: return sg(static_cast<std::int8_t>(a.bits), static_cast<std::int8_t>(b.bits));
    case U8: return sg(static_cast<std::uint8_t>(a.bits), static_cast<std::uint8_t>(b.bits));
    case I16: return sg(static_cast<std::int16_t>(a.bits), static_cast<std::int16_t>(b.bits));
    case U16: return sg(static_cast<std::uint16_t>(a.bits), static_cast<std::uint16_t>(b.bits));
    case I32: return sg(static_cast<std::int32_t>(a.bits), static_cast<std::int32_t>(b.bits));
    case U32: return sg(static_cast<std::uint32_t>(a.bits), static_cast<std::uint32_t>(b.bits));
    case I64: return sg(static_cast<std::int64_t>(a.bits), static_cast<std::int64_t>(b.bits));
    case U64: return sg(static_cast<std::uint64_t>(a.bits), static_cast<std::uint64_t>(b.bits));
    case F32: return fp_oracle(from_bits<float>(static_cast<std::uint32_t>(a.bits)), from_bits<float>(static_cast<std::uint32_t>(b.bits)));
    case F64: return fp_oracle(from_bits<double>(a.bits), from_bits<double>(b.bits));
    case TXT: return oracle_text_cmp(a.txt, b.txt);
    default: return 0;
  }
}

comp random_comp(vh::rng& r, ctype t) {
  comp c;
  c.t = t;
  if (t == TXT) {
    const auto len = r.chance(0.9) ? r.below(12) : r.below(300);
    c.txt = random_text(r, len, r.chance(0.7));
    if (r.chance(0.2)) c.txt.append(r.below(4), '\0');
  } else {
    switch (r.below(4)) {
      case 0: c.bits = r.next(); break;
      case 1: c.bits = r.below(5); break;
      case 2: c.bits = ~u64{0} - r.below(5); break;
      default: c.bits = (u64{1} << r.below(64)) + r.below(3) - 1; break;
    }
    if (t == F32 && r.chance(0.15)) { const std::uint32_t sp[] = {0x7F800000U, 0xFF800000U, 0x7FC00000U, 0xFFC00001U, 0U, 0x80000000U, 1U, 0x80000001U}; c.bits = sp[r.below(8)]; }
    if (t == F64 && r.chance(0.15)) { const u64 sp[] = {0x7FF0000000000000ULL, 0xFFF0000000000000ULL, 0x7FF8000000000000ULL, 0xFFF8000000000001ULL, 0ULL, 0x8000000000000000ULL, 1ULL, 0x8000000000000001ULL}; c.bits = sp[r.below(8)]; }
  }
  return c;
}

comp mutate_comp(vh::rng& r, const comp& c) {
  comp m = c;
  if (c.t == TXT) {
    // mutate the text proper; never create an interior zero byte (outside the property)
    const auto which = r.below(5);
    if (which <= 2) while (!m.txt.empty() && m.txt.back() == '\0') m.txt.pop_back();
    switch (which) {
      case 0: m.txt += static_cast<char>(1 + r.below(255)); break;
      case 1: if (!m.txt.empty()) m.txt.pop_back(); break;
      case 2: if (!m.txt.empty()) m.txt[r.below(m.txt.size())] = static_cast<char>(1 + r.below(255)); break;
      case 3: m.txt.append(1 + r.below(3), '\0'); break;  // normalises to the same text
      default: m = random_comp(r, TXT);
    }
  } else {
    switch (r.below(4)) {
      case 0: m.bits = c.bits + 1; break;
      case 1: m.bits = c.bits - 1; break;
      case 2: m.bits = c.bits ^ (u64{1} << r.below(64)); break;
      default: m = random_comp(r, c.t);
    }
  }
  return m;
}

std::string enc_tuple(const std::vector<comp>& t) {
  unodb::key_encoder e;
  for (const auto& c : t) encode_comp(e, c);
  return enc_bytes(e);
}

json tuple_json(const std::vector<comp>& t) {
  static const char* names[] = {"i8", "u8", "i16", "u16", "i32", "u32", "i64", "u64", "f32", "f64", "txt"};
  json a = json::array();
  for (const auto& c : t) {
    if (c.t == TXT) a.push(json::object().set("t", "txt").set("len", static_cast<u64>(c.txt.size())).set("hex", vh::hex(c.txt.substr(0, 24))));
    else a.push(json::object().set("t", names[c.t]).set("bits", vh::hex64(c.bits)));
  }
  return a;
}

// -------------------------------------------------------------- C11 tasks
// 32-bit domains are cut in 4096 chunks of 2^20; task indices:
//   0            8/16-bit integer types exhaustively
//   1            64-bit integers structured+random
//   2            double structured+random
//   3            small-alphabet texts all pairs (len<=4 quick; <=6 when --textlen 6), boundary texts
//   4            random tuples
//   5            float / int32 / uint32 boundary windows (always exhaustive inside the windows)
//   16..16+4095       uint32 chunk
//   4112..4112+4095   int32 chunk
//   8208..8208+4095   float chunk (by sign-magnitude; NaN patterns included)
constexpr u64 kChunks = 4096;
constexpr u64 kU32Base = 16, kI32Base = kU32Base + kChunks, kF32Base = kI32Base + kChunks, kTaskEnd = kF32Base + kChunks;

void order_task(u64 task, vh::rng& r, const vh::args& a) {
  if (task == 0) {
    sweep_int<std::int8_t>(-128, 127, 1, r);
    sweep_int<std::uint8_t>(0, 255, 1, r);
    sweep_int<std::int16_t>(-32768, 32767, 1, r);
    sweep_int<std::uint16_t>(0, 65535, 1, r);
    for (int x = -128; x <= 127; ++x)
      for (int y = -128; y <= 127; ++y) check_int_pair<std::int8_t>(static_cast<std::int8_t>(x), static_cast<std::int8_t>(y));
    for (int x = 0; x <= 255; ++x)
      for (int y = 0; y <= 255; ++y) check_int_pair<std::uint8_t>(static_cast<std::uint8_t>(x), static_cast<std::uint8_t>(y));
    rep().nontrivial_counted(2 * 256 * 255);
    rep().count("exhaustive_8_16_bit", 1);
  } else if (task == 1) {
    structured_int<std::int64_t>(r, a.num("pairs", 200000));
    structured_int<std::uint64_t>(r, a.num("pairs", 200000));
    structured_int<std::int32_t>(r, a.num("pairs", 200000) / 4);
    structured_int<std::uint32_t>(r, a.num("pairs", 200000) / 4);
  } else if (task == 2) {
    structured_fp<double>(r, a.num("pairs", 200000));
    structured_fp<float>(r, a.num("pairs", 200000) / 4);
  } else if (task == 3) {
    const auto texts = small_texts(static_cast<int>(a.num("textlen", 4)));
    for (const auto& x : texts)
      for (const auto& y : texts) check_text_pair(x, y);
    // trailing zero variants normalise to the same text
    for (const auto& x : texts)
      for (const std::size_t z : {std::size_t{1}, std::size_t{3}}) {
        check_text_pair(x, x + std::string(z, '\0'));
        check_text_pair(x + std::string(z, '\0'), r.pick(texts));
      }
    rep().count("small_alphabet_texts", texts.size());
    for (int k = 0; k < 6; ++k) {
      const auto bt = boundary_texts(r);
      for (const auto& x : bt)
        for (const auto& y : bt) check_text_pair(x, y);
      rep().count("boundary_text_sets", 1);
    }
    for (u64 i = 0; i < a.num("pairs", 200000) / 10; ++i) {
      const auto x = random_text(r, r.below(40), r.chance(0.5));
      auto y = r.chance(0.5) ? random_text(r, r.below(40), r.chance(0.5)) : x;
      if (y == x && r.chance(0.8)) { comp c; c.t = TXT; c.txt = x; y = mutate_comp(r, c).txt; }
      check_text_pair(x, y);
    }
  } else if (task == 4) {
    for (u64 i = 0; i < a.num("pairs", 200000); ++i) {
      const auto n = 1 + r.below(5);
      std::vector<comp> x;
      for (u64 k = 0; k < n; ++k) x.push_back(random_comp(r, static_cast<ctype>(r.below(CT_COUNT))));
      auto y = x;
      if (r.chance(0.9)) {
        const auto at = r.below(n);
        y[at] = mutate_comp(r, y[at]);
        for (auto k = at + 1; k < n; ++k)
          if (r.chance(0.5)) y[k] = random_comp(r, y[k].t);
      }
      int want = 0;
      for (u64 k = 0; k < n && want == 0; ++k) want = oracle_comp_cmp(x[k], y[k]);
      const auto ex = enc_tuple(x), ey = enc_tuple(y);
      const int got = index_compare(ex, ey);
      rep().evaluation();
      if (want != got)
        rep().violation(g_prop, "codec/order/tuple", "tuple encoding order differs from lexicographic order of the components",
                        json::object().set("a", tuple_json(x)).set("b", tuple_json(y)).set("want", want).set("got", got));
      if (want != 0) rep().nontrivial(vh::hash_combine(vh::hash_str(ex), vh::hash_str(ey)));
      if (i == 0) rep().sample(json::object().set("kind", "tuple pair").set("a", tuple_json(x)).set("b", tuple_json(y)).set("oracle", want));
    }
  } else if (task == 5) {
    // windows of +-64 around every sign/exponent/byte boundary, exhaustive inside
    for (const auto v : int_boundaries<std::uint32_t>()) sweep_int<std::uint32_t>(v < 64 ? 0 : v - 64, v > 0xFFFFFFFFU - 64 ? 0xFFFFFFFFU : v + 64, 1, r);
    for (const auto v : int_boundaries<std::int32_t>()) sweep_int<std::int32_t>(v < INT32_MIN + 64 ? INT32_MIN : v - 64, v > INT32_MAX - 64 ? INT32_MAX : v + 64, 1, r);
    for (std::uint32_t e = 0; e <= 255; ++e) {
      const std::uint32_t m = e << 23;
      for (const bool neg : {false, true}) sweep_fp<float>(neg, m < 64 ? 0 : m - 64, std::min<std::uint32_t>(m + 64, 0x7F800000U), 1, r);
    }
    sweep_nan<float>(0x7F800001U, 0x7F800001U + 4096, 1, r);
    sweep_nan<float>(0x7FFFFFFFU - 4096, 0x7FFFFFFFU, 1, r);
    sweep_nan<double>(0x7FF0000000000001ULL, 0x7FF0000000000001ULL + 4096, 1, r);
    sweep_nan<double>(0x7FFFFFFFFFFFFFFFULL - 4096, 0x7FFFFFFFFFFFFFFFULL, 1, r);
    sweep_nan<double>(0x7FF8000000000000ULL - 2048, 0x7FF8000000000000ULL + 2048, 1, r);
  } else if (task >= kU32Base && task < kI32Base) {
    const u64 c = task - kU32Base;
    sweep_int<std::uint32_t>(static_cast<long double>(c << 20), static_cast<long double>(((c + 1) << 20) - 1), g_stride, r);
  } else if (task >= kI32Base && task < kF32Base) {
    const u64 c = task - kI32Base;
    const long double lo = static_cast<long double>(INT32_MIN) + static_cast<long double>(c << 20);
    sweep_int<std::int32_t>(lo, lo + static_cast<long double>((u64{1} << 20) - 1), g_stride, r);
  } else if (task >= kF32Base && task < kTaskEnd) {
    // chunk c: sign = top bit of c (2048 chunks per sign), magnitudes [lo,hi]
    const u64 c = task - kF32Base;
    const bool neg = c >= 2048;
    const std::uint32_t lo = static_cast<std::uint32_t>((c & 2047) << 20), hi = lo + ((1U << 20) - 1);
    if (lo <= 0x7F800000U) sweep_fp<float>(neg, lo, std::min<std::uint32_t>(hi, 0x7F800000U), g_stride, r);
    if (hi > 0x7F800000U && !neg) sweep_nan<float>(std::max<std::uint32_t>(lo, 0x7F800001U), hi, g_stride, r);
  }
}

// -------------------------------------------------------------- C12 tasks
template <class T>
void roundtrip_one(T v) {
  unodb::key_encoder e;
  const auto before = e.size_bytes();
  e.encode(v);
  const auto sz = e.size_bytes() - before;
  T back{};
  unodb::key_decoder d{e.get_key_view()};
  d.decode(back);
  rep().evaluation();
  bool ok;
  if constexpr (std::is_floating_point_v<T>) {
    const T want = std::isnan(v) ? std::numeric_limits<T>::quiet_NaN() : v;
    ok = to_bits(back) == to_bits(want);
  } else {
    ok = back == v;
  }
  if (sz != sizeof(T))
    rep().violation("C12", std::string("codec/size/") + tname<T>(), "fixed-size component does not occupy sizeof bytes",
                    json::object().set("value", val_json(v)).set("size", static_cast<u64>(sz)));
  if (!ok)
    rep().violation("C12", std::string("codec/roundtrip/") + tname<T>(), "decode(encode(v)) differs from v",
                    json::object().set("value", val_json(v)).set("decoded", val_json(back)).set("enc", vh::hex(enc_bytes(e))));
}

template <class T, class U>
void roundtrip_bits_range(u64 lo, u64 hi, u64 stride, vh::rng& r) {
  u64 n = 0;
  u64 b = lo;
  while (true) {
    T v;
    const U u = static_cast<U>(b);
    std::memcpy(&v, &u, sizeof v);
    roundtrip_one<T>(v);
    ++n;
    const u64 step = stride == 1 ? 1 : 1 + r.below(2 * stride - 1);
    if (hi - b < step) break;
    b += step;
  }
  rep().nontrivial_counted(n);
}

// one random component sequence encoded three ways must give the same bytes,
// and decoding the fixed-size components gives the values back
void reuse_case(vh::rng& r, unodb::key_encoder& reused, unodb::key_encoder& grown) {
  const auto n = r.chance(0.2) ? 1 + r.below(900) : 1 + r.below(60);
  std::vector<comp> seq;
  bool has_text = false;
  for (u64 k = 0; k < n; ++k) {
    auto t = static_cast<ctype>(r.below(CT_COUNT));
    if (t == TXT && r.chance(0.7)) t = U64;
    seq.push_back(random_comp(r, t));
    has_text |= t == TXT;
  }
  unodb::key_encoder fresh;
  for (const auto& c : seq) encode_comp(fresh, c);
  reused.reset();
  for (const auto& c : seq) encode_comp(reused, c);
  grown.reset();
  for (const auto& c : seq) encode_comp(grown, c);
  const auto a = enc_bytes(fresh), b = enc_bytes(reused), g = enc_bytes(grown);
  rep().evaluation();
  rep().count_max("longest_encoded_key_max", a.size());
  if (a.size() > 256) rep().count("keys_past_internal_buffer");
  if (a != b || a != g)
    rep().violation("C12", "codec/reuse/bytes-differ", "reused or grown encoder yields different bytes than a fresh one",
                    json::object().set("components", tuple_json(seq)).set("fresh_len", static_cast<u64>(a.size())).set("reused_len", static_cast<u64>(b.size())).set("grown_len", static_cast<u64>(g.size())));
  if (!has_text) {
    unodb::key_decoder d{fresh.get_key_view()};
    std::size_t expect = 0;
    bool bad = false;
    for (const auto& c : seq) {
      bool ok = true;
      switch (c.t) {
        case I8: { std::int8_t v; d.decode(v); ok = v == static_cast<std::int8_t>(c.bits); expect += 1; break; }
        case U8: { std::uint8_t v; d.decode(v); ok = v == static_cast<std::uint8_t>(c.bits); expect += 1; break; }
        case I16: { std::int16_t v; d.decode(v); ok = v == static_cast<std::int16_t>(c.bits); expect += 2; break; }
        case U16: { std::uint16_t v; d.decode(v); ok = v == static_cast<std::uint16_t>(c.bits); expect += 2; break; }
        case I32: { std::int32_t v; d.decode(v); ok = v == static_cast<std::int32_t>(c.bits); expect += 4; break; }
        case U32: { std::uint32_t v; d.decode(v); ok = v == static_cast<std::uint32_t>(c.bits); expect += 4; break; }
        case I64: { std::int64_t v; d.decode(v); ok = v == static_cast<std::int64_t>(c.bits); expect += 8; break; }
        case U64: { std::uint64_t v; d.decode(v); ok = v == c.bits; expect += 8; break; }
        case F32: { float v; d.decode(v); const float w = from_bits<float>(static_cast<std::uint32_t>(c.bits)); ok = to_bits(v) == to_bits(std::isnan(w) ? std::numeric_limits<float>::quiet_NaN() : w); expect += 4; break; }
        case F64: { double v; d.decode(v); const double w = from_bits<double>(c.bits); ok = to_bits(v) == to_bits(std::isnan(w) ? std::numeric_limits<double>::quiet_NaN() : w); expect += 8; break; }
        default: break;
      }
      if (!ok && !bad) {
        bad = true;
        rep().violation("C12", "codec/roundtrip/sequence", "component of a multi-component key does not decode to its value",
                        json::object().set("components", tuple_json(seq)));
      }
    }
    if (expect != a.size())
      rep().violation("C12", "codec/size/sequence", "encoded size is not the sum of the component sizes",
                      json::object().set("components", tuple_json(seq)).set("size", static_cast<u64>(a.size())).set("expected", static_cast<u64>(expect)));
  }
  rep().nontrivial(vh::hash_str(a));
}

// tasks: 0 = 8/16-bit all; 1 = 64-bit ints + double structured/random; 2 = reuse/growth;
//        16.. = 32-bit pattern chunks for int32, uint32, float (3*4096)
void roundtrip_task(u64 task, vh::rng& r, const vh::args& a) {
  if (task == 0) {
    roundtrip_bits_range<std::int8_t, std::uint8_t>(0, 255, 1, r);
    roundtrip_bits_range<std::uint8_t, std::uint8_t>(0, 255, 1, r);
    roundtrip_bits_range<std::int16_t, std::uint16_t>(0, 65535, 1, r);
    roundtrip_bits_range<std::uint16_t, std::uint16_t>(0, 65535, 1, r);
    rep().count("exhaustive_8_16_bit", 1);
  } else if (task == 1) {
    for (const auto v : int_boundaries<std::int64_t>())
      for (int d = -64; d <= 64; ++d) { roundtrip_one<std::int64_t>(static_cast<std::int64_t>(static_cast<u64>(v) + static_cast<u64>(d))); roundtrip_one<std::uint64_t>(static_cast<u64>(v) + static_cast<u64>(d)); }
    rep().nontrivial_counted(int_boundaries<std::int64_t>().size() * 129 * 2);
    for (const auto v : int_boundaries<std::int32_t>())
      for (int d = -64; d <= 64; ++d) { roundtrip_one<std::int32_t>(static_cast<std::int32_t>(static_cast<std::uint32_t>(v) + static_cast<std::uint32_t>(d))); roundtrip_one<std::uint32_t>(static_cast<std::uint32_t>(v) + static_cast<std::uint32_t>(d)); }
    for (const double x : fp_specials<double>()) {
      double y = x;
      for (int k = 0; k < 40; ++k) { roundtrip_one<double>(y); if (std::isnan(y)) break; y = fp_succ(y); }
    }
    for (const float x : fp_specials<float>()) {
      float y = x;
      for (int k = 0; k < 40; ++k) { roundtrip_one<float>(y); if (std::isnan(y)) break; y = fp_succ(y); }
    }
    for (u64 i = 0; i < a.num("pairs", 200000); ++i) {
      const u64 b = r.next();
      roundtrip_one<std::int64_t>(static_cast<std::int64_t>(b));
      roundtrip_one<std::uint64_t>(b);
      roundtrip_one<double>(from_bits<double>(b));
      rep().nontrivial(b);
    }
  } else if (task == 2) {
    unodb::key_encoder reused, grown;
    // force the "grown" encoder through several doublings first
    for (int i = 0; i < 700; ++i) grown.encode(static_cast<std::uint64_t>(i));
    for (u64 i = 0; i < a.num("pairs", 200000) / 20; ++i) reuse_case(r, reused, grown);
  } else if (task >= 16 && task < 16 + 3 * kChunks) {
    const u64 t = (task - 16) / kChunks, c = (task - 16) % kChunks;
    const u64 lo = c << 20, hi = lo + ((u64{1} << 20) - 1);
    if (t == 0) roundtrip_bits_range<std::uint32_t, std::uint32_t>(lo, hi, g_stride, r);
    else if (t == 1) roundtrip_bits_range<std::int32_t, std::uint32_t>(lo, hi, g_stride, r);
    else roundtrip_bits_range<float, std::uint32_t>(lo, hi, g_stride, r);
  }
}

// -------------------------------------------------------------- C15 tasks
sigjmp_buf g_jmp;
volatile sig_atomic_t g_in_guarded = 0;
void* volatile g_fault_addr = nullptr;

void segv_handler(int, siginfo_t* si, void*) {
  if (g_in_guarded) {
    g_fault_addr = si->si_addr;
    siglongjmp(g_jmp, 1);
  }
  signal(SIGSEGV, SIG_DFL);
  raise(SIGSEGV);
}

bool is_prefix(const std::string& a, const std::string& b) { return a.size() < b.size() && std::memcmp(a.data(), b.data(), a.size()) == 0; }

bool norm_equal(const std::vector<comp>& x, const std::vector<comp>& y) {
  for (std::size_t k = 0; k < x.size(); ++k)
    if (oracle_comp_cmp(x[k], y[k]) != 0) return false;
  return true;
}

void check_prefix_pair(const std::vector<comp>& x, const std::vector<comp>& y) {
  const auto ex = enc_tuple(x), ey = enc_tuple(y);
  const bool neq = norm_equal(x, y);
  rep().evaluation();
  if ((ex == ey) != neq)
    rep().violation("C15", "codec/prefix/equality", "byte equality of two encoded keys differs from equality of their normalised components",
                    json::object().set("a", tuple_json(x)).set("b", tuple_json(y)).set("enc_equal", ex == ey).set("normalised_equal", neq));
  if (!neq && (is_prefix(ex, ey) || is_prefix(ey, ex)))
    rep().violation("C15", "codec/prefix/is-prefix", "one encoded key is a proper prefix of another key of the same schema",
                    json::object().set("a", tuple_json(x)).set("b", tuple_json(y)).set("enc_a", vh::hex(ex.substr(0, 64))).set("enc_b", vh::hex(ey.substr(0, 64))));
  if (!neq) rep().nontrivial(vh::hash_combine(vh::hash_str(ex), vh::hash_str(ey)));
}

// Text input placed right before a PROT_NONE page: the span claims more bytes
// than exist; a correct encoder reads at most maxlen of them.
void guard_page_case(vh::rng& r) {
  const std::size_t page = 4096;
  const std::size_t span_claim = kMaxlen + 1 + r.below(4096);
  const std::size_t region = ((kMaxlen + page - 1) / page + 1) * page;
  auto* base = static_cast<char*>(mmap(nullptr, region + page, PROT_READ | PROT_WRITE, MAP_PRIVATE | MAP_ANONYMOUS, -1, 0));
  if (base == MAP_FAILED) { rep().inconclusive("mmap failed for guard page test"); return; }
  mprotect(base + region, page, PROT_NONE);
  char* text = base + region - kMaxlen;  // text[maxlen-1] is the last readable byte
  for (std::size_t i = 0; i < kMaxlen; ++i) text[i] = static_cast<char>(1 + r.below(255));
  if (r.chance(0.5)) for (std::size_t i = 0; i < 1 + r.below(5); ++i) text[kMaxlen - 1 - i] = '\0';
  unodb::key_encoder e;
  rep().evaluation();
  g_in_guarded = 1;
  if (sigsetjmp(g_jmp, 1) == 0) {
    e.encode_text(std::span<const std::byte>(reinterpret_cast<const std::byte*>(text), span_claim));
    g_in_guarded = 0;
    const auto sz = e.size_bytes();
    if (sz > kMaxlen + 3)
      rep().violation("C15", "codec/text/emits-too-much", "encode_text emitted more than maxlen+3 bytes", json::object().set("size", static_cast<u64>(sz)));
    const auto want = enc_text(std::string(text, kMaxlen));
    if (enc_bytes(e) != want)
      rep().violation("C15", "codec/text/truncation-differs", "encoding of an over-long text differs from the encoding of its first maxlen bytes");
    rep().nontrivial(vh::hash_combine(vh::hash_bytes(text, 64), span_claim));
  } else {
    g_in_guarded = 0;
    rep().violation("C15", "codec/text/over-read", "encode_text read input beyond maxlen bytes (fault on the guard page)",
                    json::object().set("offset_past_text_start", static_cast<u64>(static_cast<char*>(g_fault_addr) - text)).set("claimed_span", static_cast<u64>(span_claim)));
  }
  munmap(base, region + page);
}

// The longest run two keys share beyond the previous branch point decides
// whether the pinned index can store them (known finding D4: > 7 bytes breaks).
// Prefix-free sets are inserted into a real db<key_view> and read back; sets
// are built inside the domain where no two keys share >= 8 bytes.
void index_case(vh::rng& r) {
  // schema: (u8 a, text t) and (u16, text): short shared prefixes by construction
  std::map<std::string, std::string> model;
  unodb::db<unodb::key_view, unodb::value_view> db;
  const bool with16 = r.chance(0.5);
  const auto nkeys = 2 + r.below(200);
  for (u64 i = 0; i < nkeys; ++i) {
    unodb::key_encoder e;
    if (with16) e.encode(static_cast<std::uint16_t>(r.below(3)));
    else e.encode(static_cast<std::uint8_t>(r.below(4)));
    const auto t = random_text(r, r.below(5), true);  // <= 4 text bytes + terminator(3): at most 7 bytes after the branch byte
    e.encode_text(std::span<const std::byte>(reinterpret_cast<const std::byte*>(t.data()), t.size()));
    const auto k = enc_bytes(e);
    const std::string v = "v" + std::to_string(i);
    const bool ins = db.insert(unodb::key_view{reinterpret_cast<const std::byte*>(k.data()), k.size()}, unodb::value_view{reinterpret_cast<const std::byte*>(v.data()), v.size()});
    const bool want = model.emplace(k, v).second;
    if (ins != want)
      rep().violation("C15", "codec/index/insert-result", "insert of an encoder-built key into db<key_view> returned the wrong result",
                      json::object().set("key", vh::hex(k)).set("got", ins).set("want", want));
  }
  rep().evaluation();
  for (const auto& kv : model) {
    const auto g = db.get(unodb::key_view{reinterpret_cast<const std::byte*>(kv.first.data()), kv.first.size()});
    if (!g.has_value() || std::string(reinterpret_cast<const char*>(g->data()), g->size()) != kv.second)
      rep().violation("C15", "codec/index/get-lost-key", "a prefix-free encoder-built key set stored in db<key_view> lost or mixed up an entry",
                      json::object().set("key", vh::hex(kv.first)).set("keys", static_cast<u64>(model.size())));
  }
  std::vector<std::string> scanned;
  db.scan([&](const auto& v) { const auto k = v.get_key(); scanned.emplace_back(reinterpret_cast<const char*>(k.data()), k.size()); return false; });
  std::vector<std::string> want;
  for (const auto& kv : model) want.push_back(kv.first);
  if (scanned != want)
    rep().violation("C15", "codec/index/scan-differs", "scan over encoder-built keys differs from the sorted key set",
                    json::object().set("keys", static_cast<u64>(model.size())).set("scanned", static_cast<u64>(scanned.size())));
  rep().nontrivial(vh::hash_combine(nkeys, vh::hash_str(want.empty() ? std::string() : want.back())));
}

// tasks: 0 small-alphabet text pairs; 1 boundary texts + guard page; 2 random tuples; 3 index
void prefix_task(u64 task, vh::rng& r, const vh::args& a) {
  if (task == 0) {
    const auto texts = small_texts(static_cast<int>(a.num("textlen", 4)));
    std::vector<std::vector<comp>> ts;
    for (const auto& t : texts) { comp c; c.t = TXT; c.txt = t; ts.push_back({c}); }
    for (const auto& x : ts)
      for (const auto& y : ts) check_prefix_pair(x, y);
    for (const auto& x : ts) {
      auto y = x;
      y[0].txt.append(1 + r.below(3), '\0');
      check_prefix_pair(x, y);  // normalise equal -> must be byte-equal
    }
    rep().count("small_alphabet_texts", texts.size());
  } else if (task == 1) {
    for (int k = 0; k < 4; ++k) {
      const auto bt = boundary_texts(r);
      std::vector<std::vector<comp>> ts;
      for (const auto& t : bt) { comp c; c.t = TXT; c.txt = t; ts.push_back({c}); }
      for (const auto& x : ts)
        for (const auto& y : ts) check_prefix_pair(x, y);
      // text in the middle of a tuple
      for (const auto& x : ts)
        for (int j = 0; j < 3; ++j) {
          std::vector<comp> p{random_comp(r, U16), x[0], random_comp(r, I32)};
          auto q = p;
          q[1] = r.pick(ts)[0];
          if (r.chance(0.5)) q[2] = random_comp(r, I32);
          check_prefix_pair(p, q);
        }
    }
    for (int k = 0; k < 40; ++k) guard_page_case(r);
    rep().count("guard_page_cases", 40);
  } else if (task == 2) {
    for (u64 i = 0; i < a.num("pairs", 200000); ++i) {
      const auto n = 1 + r.below(5);
      std::vector<comp> x;
      for (u64 k = 0; k < n; ++k) {
        auto t = static_cast<ctype>(r.below(CT_COUNT));
        if (r.chance(0.3)) t = TXT;
        x.push_back(random_comp(r, t));
      }
      auto y = x;
      const auto at = r.below(n);
      y[at] = mutate_comp(r, y[at]);
      for (auto k = at + 1; k < n; ++k)
        if (r.chance(0.3)) y[k] = mutate_comp(r, y[k]);
      check_prefix_pair(x, y);
      if (i == 0) rep().sample(json::object().set("kind", "same-schema key pair").set("a", tuple_json(x)).set("b", tuple_json(y)));
    }
  } else if (task == 3) {
    for (u64 i = 0; i < a.num("pairs", 200000) / 400; ++i) index_case(r);
  }
}

}  // namespace

int main(int argc, char** argv) {
  const vh::args a(argc, argv);
  rep().init(a, "codec");
  const auto mode = a.str("mode", "order");
  g_stride = a.num("stride", 1);
  g_prop = mode == "order" ? "C11" : (mode == "roundtrip" ? "C12" : "C15");
  struct sigaction sa{};
  sa.sa_sigaction = segv_handler;
  sa.sa_flags = SA_SIGINFO | SA_NODEFER;
  sigaction(SIGSEGV, &sa, nullptr);
  // --tasks "0,1,2" or a range via --first/--cases (task indices)
  std::vector<u64> tasks;
  if (a.has("only")) tasks.push_back(a.num("only"));
  else if (a.has("tasks")) {
    const auto s = a.str("tasks");
    std::size_t p = 0;
    while (p < s.size()) { tasks.push_back(std::strtoull(s.c_str() + p, nullptr, 10)); p = s.find(',', p); if (p == std::string::npos) break; ++p; }
  } else {
    const vh::case_range cr(a);
    for (u64 t = cr.begin; t < cr.end; ++t) tasks.push_back(t);
  }
  for (const u64 t : tasks) {
    rep().progress_case(t, mode.c_str());
    vh::rng r(vh::case_seed(rep().seed, t));
    if (mode == "order") order_task(t, r, a);
    else if (mode == "roundtrip") roundtrip_task(t, r, a);
    else prefix_task(t, r, a);
    rep().count("tasks", 1);
  }
  rep().note("stride", g_stride);
  rep().finish();
  return 0;
}
