// E3 oom: allocation-failure enumeration (C08; lock part of C14).
// For operations of generated histories: snapshot, then for k = 1, 2, ... arm the
// repo's allocation_failure_injector at k and run the operation. A failure must
// surface as std::bad_alloc and leave the snapshot (entries, scan output,
// statistics, live allocations, QSBR getters) unchanged; on olc_db a
// single-threaded sweep under the scheduler must terminate (no lock left held).
// The first k at which the operation completes is the successful retry: its
// result must equal the model's. Over-long keys / values must raise
// std::length_error without a trace. QSBR: qsbr_resume, qsbr_thread
// construction, on_next_epoch_deallocate under the same k-loop.
// Built without a sanitizer, with /repo/test_heap.cpp (global operator new goes
// through the injector too). A case = one history.
#include "global.hpp"

#include <sys/mman.h>

#include <csignal>
#include <condition_variable>
#include <mutex>
#include <optional>
#include <stdexcept>
#include <string>
#include <vector>

#include "art.hpp"
#include "mutex_art.hpp"
#include "olc_art.hpp"
#include "qsbr.hpp"
#include "test_heap.hpp"

#include "common/lockmon.hpp"
#include "common/model.hpp"
#include "common/sched.hpp"
#include "common/universe.hpp"
#include "common/vh.hpp"

#ifdef NDEBUG
#error "the oom engine needs the allocation failure injector of assertion-enabled builds"
#endif

using vh::json;
using vh::rep;
using vh::u64;
using vm::bytes;
using injector = unodb::test::allocation_failure_injector;

namespace {

std::string g_prop = "C08";
u64 g_case = 0;
std::string g_context;

template <class K> struct keyconv;
template <> struct keyconv<std::uint64_t> { static std::uint64_t to(const bytes& b) { return vm::key_u64(b); } static constexpr const char* name = "u64"; };
template <> struct keyconv<unodb::key_view> { static unodb::key_view to(const bytes& b) { return {reinterpret_cast<const std::byte*>(b.data()), b.size()}; } static constexpr const char* name = "key_view"; };
inline unodb::value_view vv(const bytes& v) { return {reinterpret_cast<const std::byte*>(v.data()), v.size()}; }

template <class Db> struct dbinfo;
template <class K> struct dbinfo<unodb::db<K, unodb::value_view>> { static constexpr const char* name = "db"; static constexpr bool olc = false; using key = K; };
template <class K> struct dbinfo<unodb::mutex_db<K, unodb::value_view>> { static constexpr const char* name = "mutex_db"; static constexpr bool olc = false; using key = K; };
template <class K> struct dbinfo<unodb::olc_db<K, unodb::value_view>> { static constexpr const char* name = "olc_db"; static constexpr bool olc = true; using key = K; };

template <class View>
bytes copy_view(const View& v) {
  if constexpr (requires { v.data(); }) return bytes(reinterpret_cast<const char*>(v.data()), v.size());
  else { const std::size_t n = v.size(); if (n == 0) return bytes(); return bytes(reinterpret_cast<const char*>(v.begin().get()), n); }
}

// the tracker's own bookkeeping allocations are not part of the operation under test
void alloc_cb(void* p, std::size_t n) noexcept { const unodb::test::pause_heap_faults g{}; vm::alloc_tracker::get().on_alloc(p, n); }
void dealloc_cb(void* p) noexcept { const unodb::test::pause_heap_faults g{}; vm::alloc_tracker::get().on_dealloc(p); }

// ------------------------------------------------------------------ snapshot
struct snapshot {
  vm::entry_list entries;
  bool empty{true};
  std::array<std::uint64_t, 5> node_counts{};
  std::array<std::uint64_t, 4> grow{}, shrink{};
  std::uint64_t splits{0};
  std::size_t memory{0};
  std::unordered_map<void*, std::size_t> live;
  std::uint64_t qsbr_state{0};
  bool q_prev_empty{true}, q_cur_empty{true}, q_oprev_empty{true}, q_ocur_empty{true};

  std::string diff(const snapshot& o) const {
    if (entries != o.entries) return "entries / scan output";
    if (empty != o.empty) return "empty()";
    if (node_counts != o.node_counts) return "node counts";
    if (grow != o.grow) return "growth counters";
    if (shrink != o.shrink) return "shrink counters";
    if (splits != o.splits) return "prefix split counter";
    if (memory != o.memory) return "reported memory use";
    if (live != o.live) return live.size() < o.live.size() ? "live allocations (leak)" : "live allocations (a block disappeared)";
    if (qsbr_state != o.qsbr_state) return "QSBR state word";
    if (q_prev_empty != o.q_prev_empty || q_cur_empty != o.q_cur_empty || q_oprev_empty != o.q_oprev_empty || q_ocur_empty != o.q_ocur_empty) return "QSBR request lists";
    return "";
  }
};

template <class Db>
snapshot capture(Db& db) {
  snapshot s;
  s.live = vm::alloc_tracker::get().snapshot();  // before the scan (iterator buffers are ignored anyway)
  {
    vm::alloc_tracker::scoped_ignore ig;
    db.scan([&](const auto& v) {
      const auto k = v.get_key();
      s.entries.emplace_back(bytes(reinterpret_cast<const char*>(k.data()), k.size()), copy_view(v.get_value()));
      return false;
    });
  }
  s.empty = db.empty();
  s.node_counts = db.get_node_counts();
  s.grow = db.get_growing_inode_counts();
  s.shrink = db.get_shrinking_inode_counts();
  s.splits = db.get_key_prefix_splits();
  s.memory = db.get_current_memory_use();
  const vs::scheduler::quiet q;
  s.qsbr_state = unodb::qsbr::instance().get_state();
  s.q_prev_empty = unodb::this_thread().previous_interval_requests_empty();
  s.q_cur_empty = unodb::this_thread().current_interval_requests_empty();
  s.q_oprev_empty = unodb::qsbr::instance().previous_interval_orphaned_requests_empty();
  s.q_ocur_empty = unodb::qsbr::instance().current_interval_orphaned_requests_empty();
  return s;
}

// ------------------------------------------------------------------ history
template <class Db>
class history {
  using I = dbinfo<Db>;
  using K = typename I::key;

 public:
  history(u64 idx, vh::rng& r_, const vh::args& a) : r(r_) {
    const bool bytestring = std::is_same_v<K, unodb::key_view>;
    nops = a.num("ops", 160);
    // every 4th turn of a class: a "ladder" - 64 keys differing in one byte, filled past 49 children and drained
    // again, so that every grow and shrink transition up to I256 happens in every class whatever the seed
    // (the random families reach I256 only in a few large histories)
    ladder = (idx / 7) % 4 == 0;
    if (ladder) {
      uni = vu::universe{};
      uni.u64 = !bytestring;
      uni.family = "ladder";
      uni.sh = vu::shape::FIXED;
      uni.len = 8;
      const u64 base = r.next();
      const auto pos = r.below(8);
      const auto start = r.below(256);
      for (u64 i = 0; i < 64; ++i) {
        bytes k = vm::u64_key(base);
        k[pos] = static_cast<char>((start + i * (1 + 2 * (base & 1))) & 0xFF);
        uni.keys.push_back(k);
      }
      nops = std::max<std::size_t>(nops, 200);
      rep().count("ladder_histories");
    } else {
      const auto hint = r.chance(0.2) ? 120 + r.below(300) : 6 + r.below(60);
      uni = vu::make_universe(r, bytestring, hint);
    }
    if (uni.keys.size() > 200) nops *= 2;
    tag = std::string(I::name) + "." + keyconv<K>::name;
  }

  void run() {
    // after a violation the index is deliberately leaked: its destructor may assert on the broken
    // state and take the report with it
    auto* db = new Db;
    dbp = db;
    for (op = 0; op < nops && ok; ++op) step();
    if (ok && std::is_same_v<K, unodb::key_view> && r.chance(0.3)) length_errors(true);
    if (ok && r.chance(0.3)) length_errors(false);
    dbp = nullptr;
    if (ok) delete db;
    else poisoned = true;
    rep().count("histories." + tag);
  }
  bool poisoned{false};
  bool ladder{false};

 private:
  void fail(const std::string& oracle, const std::string& what, json w = json::object()) {
    ok = false;
    w.set("class", I::name).set("key_kind", keyconv<K>::name).set("family", uni.family).set("op_index", static_cast<u64>(op)).set("entries", static_cast<u64>(model.size())).set("context", g_context);
    rep().violation("C08", "oom/" + oracle, what + " [" + tag + "]", std::move(w));
  }

  // which structural transition the operation performs ("" = none), from the reference trie
  std::string structural(const bytes& k, bool insert) {
    auto keys = vm::sorted_keys(model);
    const auto tb = vm::ref_trie::build(keys, false);
    const auto at = std::lower_bound(keys.begin(), keys.end(), k, vm::byte_less{});
    const auto ki = static_cast<std::uint32_t>(at - keys.begin());
    if (insert) keys.insert(at, k); else keys.erase(at);
    const auto ta = vm::ref_trie::build(keys, insert);
    static const char* cn[] = {"LEAF", "I4", "I16", "I48", "I256"};
    const auto inner = [](const vm::ref_trie& t) { return t.counts[1] + t.counts[2] + t.counts[3] + t.counts[4]; };
    if (insert) {
      if (keys.size() == 1) return "first-leaf";
      if (inner(ta) == inner(tb) + 1) {
        const int pn = ta.parent_of_key(ki);
        return pn >= 0 && ta.nodes[static_cast<std::size_t>(pn)].leaf_children == 1 ? "prefix-split" : "leaf-split";
      }
      for (int c = 2; c <= 4; ++c) if (ta.counts[static_cast<std::size_t>(c)] == tb.counts[static_cast<std::size_t>(c)] + 1) return std::string("grow-to-") + cn[c];
    } else {
      if (keys.empty()) return "last-leaf";
      if (inner(ta) + 1 == inner(tb)) return "collapse-I4";
      for (int c = 2; c <= 4; ++c) if (ta.counts[static_cast<std::size_t>(c)] + 1 == tb.counts[static_cast<std::size_t>(c)]) return std::string("shrink-from-") + cn[c];
    }
    return "";
  }

  // single-threaded sweep under the scheduler: a lock left behind is a logical deadlock
  void olc_lock_sweep(const bytes& around) {
    if constexpr (I::olc) {
      vs::params p;
      p.strat = vs::strategy::PCT;
      g_context = "lock sweep after injected failure";
      vs::S().begin(1, p);
      for (const auto& kv : model) (void)dbp->get(keyconv<K>::to(kv.first)).has_value();
      (void)dbp->get(keyconv<K>::to(around)).has_value();
      {
        vm::alloc_tracker::scoped_ignore ig;
        std::size_t n = 0;
        dbp->scan([&](const auto&) { ++n; return false; }, true);
        dbp->scan([&](const auto&) { ++n; return false; }, false);
      }
      vs::S().end();
      rep().count("olc_lock_sweeps");
    } else {
      (void)around;
    }
  }

  // run `call` under fail-the-k-th-allocation for k = 1.. until it completes
  template <class Call>
  bool inject_loop(const std::string& what_s, const bytes& k, Call&& call, bool want) {
    const char* what = what_s.c_str();
    const snapshot s0 = capture(*dbp);
    for (u64 kth = 1; kth < 64; ++kth) {
      bool threw = false, wrong_type = false, got = false;
      injector::reset();
      injector::fail_on_nth_allocation(kth);
      int mutexes_held;
      {
        const lockmon::scope lm;  // counts std::mutex lock/unlock of this thread during the call
        try {
          got = call();
        } catch (const std::bad_alloc&) {
          threw = true;
        } catch (...) {
          threw = true;
          wrong_type = true;
        }
        mutexes_held = lockmon::held;
      }
      injector::reset();
      if (mutexes_held != 0) {
        fail(std::string(what) + "/mutex-left-locked", threw ? "an operation that failed with an exception returned with a mutex still locked" : "an operation returned with a mutex still locked",
             json::object().set("key", vh::hex(k)).set("k", kth).set("held", mutexes_held));
        return false;
      }
      rep().count("mutex_balance_checks");
      rep().evaluation();
      rep().count(std::string("injections.") + what);
      if (!threw) {
        rep().count(std::string("allocations_per_op.") + what + "." + std::to_string(kth - 1));
        if (got != want) { fail(std::string(what) + "/retry-result", "the operation repeated without the fault returned the wrong result", json::object().set("key", vh::hex(k)).set("got", got).set("want", want)); return false; }
        return true;
      }
      rep().count("failures_surfaced");
      rep().nontrivial(vh::hash_combine(vh::hash_str(std::string(what) + tag), kth));
      rep().count(std::string("surfaced.") + what + "." + tag);
      if (wrong_type) { fail(std::string(what) + "/wrong-exception-type", "an injected allocation failure did not reach the caller as std::bad_alloc", json::object().set("key", vh::hex(k)).set("k", kth)); return false; }
      // olc_db: first the read-only sweep under the scheduler, which turns "a node left locked or obsolete-but-linked" into a
      // logical deadlock / livelock verdict; the snapshot below scans the index too and would simply hang on it
      olc_lock_sweep(k);
      const snapshot s1 = capture(*dbp);
      const auto d = s0.diff(s1);
      if (!d.empty()) { fail(std::string(what) + "/state-changed/" + d, "after a failed operation the index is observably different: " + d, json::object().set("key", vh::hex(k)).set("k", kth)); return false; }
    }
    fail(std::string(what) + "/never-completes", "the operation still fails with the 64th allocation failing; allocation count unbounded?", json::object().set("key", vh::hex(k)));
    return false;
  }

  void step() {
    const auto x = r.below(100);
    bool ins = model.empty() || x < 58;
    if (ladder) ins = model.empty() || (op < 75 ? x < 92 : (op < 150 ? x < 8 : x < 50));  // fill, drain, churn
    bytes k;
    if (ins) k = r.chance(0.1) && !model.empty() ? pick_present() : r.pick(uni.keys);
    else k = r.chance(0.85) ? pick_present() : r.pick(uni.keys);
    if (ladder && ins && op < 75 && model.count(k) != 0 && r.chance(0.9)) {  // fill phase: prefer absent keys
      for (const auto& c : uni.keys) if (model.count(c) == 0) { k = c; break; }
    }
    if (std::is_same_v<K, unodb::key_view>) {
      if (ins && !vu::admissible_insert(model, k)) return;
      if (!ins && !vu::admissible_remove(model, k)) return;
    }
    const bool present = model.count(k) != 0;
    transition = (ins && !present) ? structural(k, true) : (!ins && present ? structural(k, false) : std::string());
    structural_now = !transition.empty();
    const bool inject = model.size() <= 48 || structural_now || r.chance(48.0 / static_cast<double>(model.size()));
    g_context = std::string(ins ? "insert " : "remove ") + vh::hex(k);
    if (ins) {
      bytes v(r.below(20), 'v');
      for (auto& c : v) c = static_cast<char>(r.below(256));
      const bool want = !present;
      bool done;
      if (inject) done = inject_loop(structural_now ? "insert/" + transition : std::string (present ? "insert/duplicate" : "insert/add-to-node"), k, [&] { return dbp->insert(keyconv<K>::to(k), vv(v)); }, want);
      else { done = dbp->insert(keyconv<K>::to(k), vv(v)) == want; if (!done) fail("insert/result", "insert returned the wrong result"); }
      if (done && want) model.emplace(k, v);
    } else {
      const bool want = present;
      bool done;
      if (inject) done = inject_loop(structural_now ? "remove/" + transition : std::string (present ? "remove/from-node" : "remove/absent"), k, [&] { return dbp->remove(keyconv<K>::to(k)); }, want);
      else { done = dbp->remove(keyconv<K>::to(k)) == want; if (!done) fail("remove/result", "remove returned the wrong result"); }
      if (done && want) model.erase(k);
    }
    rep().count("ops");
  }

  bytes pick_present() {
    auto it = model.lower_bound(r.pick(uni.keys));
    if (it == model.end()) it = model.begin();
    return it->first;
  }

  // a view of 2^32 bytes over a lazily committed mapping: correct code never reads it
  void length_errors(bool long_key) {
    const std::size_t len = (std::size_t{1} << 32) + (r.chance(0.5) ? 0 : 4096);
    void* m = mmap(nullptr, len, PROT_READ, MAP_PRIVATE | MAP_ANONYMOUS | MAP_NORESERVE, -1, 0);
    if (m == MAP_FAILED) { rep().inconclusive("mmap of 4 GiB (MAP_NORESERVE) failed"); return; }
    const snapshot s0 = capture(*dbp);
    bool threw = false, wrong = false;
    g_context = long_key ? "insert with a 2^32-byte key" : "insert with a 2^32-byte value";
    const bytes normal = r.pick(uni.keys);
    try {
      if constexpr (std::is_same_v<K, unodb::key_view>) {
        if (long_key) (void)dbp->insert(unodb::key_view{static_cast<const std::byte*>(m), len}, vv(bytes("x")));
        else (void)dbp->insert(keyconv<K>::to(normal), unodb::value_view{static_cast<const std::byte*>(m), len});
      } else {
        (void)dbp->insert(keyconv<K>::to(normal), unodb::value_view{static_cast<const std::byte*>(m), len});
      }
    } catch (const std::length_error&) {
      threw = true;
    } catch (...) {
      threw = true;
      wrong = true;
    }
    munmap(m, len);
    rep().evaluation();
    rep().count(long_key ? "length_error_key_cases" : "length_error_value_cases");
    const bool absent_normal = model.count(normal) == 0;
    if (!threw) {
      // a 2^32-byte value for an absent key must be refused; for a present key "false" without inspecting is also fine
      if (long_key || absent_normal) return fail("length/no-exception", "an over-long key or value was accepted without std::length_error", json::object().set("long_key", long_key));
      return;
    }
    if (wrong) return fail("length/wrong-exception-type", "an over-long key or value raised something other than std::length_error");
    rep().nontrivial(vh::hash_combine(vh::hash_str(tag), (long_key ? 1 : 2) + (model.empty() ? 10 : 20)));
    const auto d = s0.diff(capture(*dbp));
    if (!d.empty()) return fail("length/state-changed/" + d, "after a refused over-long key or value the index is observably different: " + d);
    olc_lock_sweep(normal);
  }

  vh::rng& r;
  vu::universe uni;
  vm::model_map model;
  Db* dbp{nullptr};
  std::size_t nops{160}, op{0};
  std::string tag;
  bool ok{true}, structural_now{false};
  std::string transition;
};

// ------------------------------------------------------------------ QSBR part
struct qobj { u64 a, b; };

// A second registered thread that passes through a quiescent state on request (strict hand-over: it runs only while the
// main thread waits for it), so that the main thread can be brought one epoch behind the global epoch with requests pending.
class companion {
 public:
  companion() : th([this] { loop(); }) { std::unique_lock lk(m); cv.wait(lk, [this] { return started && cmd == 0; }); }
  void quiesce() { command(1); }
  void stop() { command(2); th.join(); }

 private:
  void loop() {
    std::unique_lock lk(m);
    started = true;
    cv.notify_all();
    for (;;) {
      cv.wait(lk, [this] { return cmd != 0; });
      const int c = cmd;
      if (c == 1) unodb::this_thread().quiescent();
      cmd = 0;
      cv.notify_all();
      if (c == 2) return;
    }
  }
  void command(int c) {
    std::unique_lock lk(m);
    cmd = c;
    cv.notify_all();
    cv.wait(lk, [this] { return cmd == 0; });
  }
  std::mutex m;
  std::condition_variable cv;
  int cmd{0};
  bool started{false};
  unodb::qsbr_thread th;
};

// everything a caller can observe of QSBR: state word, request lists, statistics, and (separately) the live blocks
struct qsnap {
  unodb::qsbr_state::type word{};
  bool prev_empty{}, cur_empty{}, oprev_empty{}, ocur_empty{};
  std::uint64_t epoch_changes{}, max_backlog{};
  std::size_t cb_max{};
  double mean_backlog{}, cb_var{}, mean_qs{};
  std::string diff(const qsnap& o) const {
    if (word != o.word) return "QSBR state word";
    if (prev_empty != o.prev_empty) return "previous-interval request list of the thread";
    if (cur_empty != o.cur_empty) return "current-interval request list of the thread";
    if (oprev_empty != o.oprev_empty || ocur_empty != o.ocur_empty) return "orphaned request lists";
    if (epoch_changes != o.epoch_changes) return "epoch change count";
    if (max_backlog != o.max_backlog || mean_backlog != o.mean_backlog) return "backlog statistics";
    if (cb_max != o.cb_max || cb_var != o.cb_var) return "epoch callback statistics";
    if (mean_qs != o.mean_qs) return "quiescent-states-per-thread statistics";
    return "";
  }
};
qsnap qcapture() {
  auto& Q = unodb::qsbr::instance();
  qsnap s;
  { const vs::scheduler::quiet q; s.word = Q.get_state(); }
  s.prev_empty = unodb::this_thread().previous_interval_requests_empty();
  s.cur_empty = unodb::this_thread().current_interval_requests_empty();
  s.oprev_empty = Q.previous_interval_orphaned_requests_empty();
  s.ocur_empty = Q.current_interval_orphaned_requests_empty();
  s.epoch_changes = Q.get_epoch_change_count();
  s.max_backlog = Q.get_max_backlog_bytes();
  s.mean_backlog = Q.get_mean_backlog_bytes();
  s.cb_max = Q.get_epoch_callback_count_max();
  s.cb_var = Q.get_epoch_callback_count_variance();
  s.mean_qs = Q.get_mean_quiescent_states_per_thread_between_epoch_changes();
  return s;
}

void qsbr_case(vh::rng& r) {
  auto& Q = unodb::qsbr::instance();
  auto state = [&] { const vs::scheduler::quiet q; return Q.get_state(); };
  auto qfail = [&](const std::string& oracle, const std::string& what, json w = json::object()) { rep().violation("C08", "oom/qsbr/" + oracle, what, std::move(w)); };
  // 1. qsbr_resume
  {
    unodb::this_thread().qsbr_pause();
    const auto s0 = state();
    for (u64 k = 1; k < 16; ++k) {
      bool threw = false;
      g_context = "qsbr_resume k=" + std::to_string(k);
      injector::reset();
      injector::fail_on_nth_allocation(k);
      try { unodb::this_thread().qsbr_resume(); } catch (const std::bad_alloc&) { threw = true; } catch (...) { threw = true; qfail("resume/wrong-exception-type", "qsbr_resume failure is not std::bad_alloc"); }
      injector::reset();
      rep().evaluation();
      rep().count("injections.qsbr_resume");
      if (!threw) { if (unodb::this_thread().is_qsbr_paused()) qfail("resume/still-paused", "qsbr_resume returned but the thread is still paused"); break; }
      rep().count("failures_surfaced");
      rep().nontrivial(vh::hash_combine(0xA1, k));
      if (state() != s0) { qfail("resume/state-changed", "a failed qsbr_resume changed the QSBR state word", json::object().set("k", k)); break; }
      if (!unodb::this_thread().is_qsbr_paused()) { qfail("resume/not-paused-after-failure", "a failed qsbr_resume left the thread resumed", json::object().set("k", k)); break; }
    }
    if (unodb::this_thread().is_qsbr_paused()) { injector::reset(); unodb::this_thread().qsbr_resume(); }
    // "repeating the operation without the fault then succeeds with the normal result": the resumed thread must be fully
    // functional, in particular able to hand pending requests over when it pauses again (state left behind by a failed
    // attempt must not change what the successful one does)
    {
      std::atomic<int> phase{0};
      unodb::qsbr_thread parked([&] { phase.store(1); while (phase.load() != 2) std::this_thread::yield(); });
      while (phase.load() != 1) std::this_thread::yield();
      const auto n = 1 + r.below(2);
      for (u64 j = 0; j < n; ++j) {
        auto* p = static_cast<qobj*>(unodb::detail::allocate_aligned(sizeof(qobj)));
        unodb::this_thread().on_next_epoch_deallocate(p, sizeof(qobj), nullptr);
      }
      g_context = "qsbr_pause with requests pending after a resume that was retried";
      unodb::this_thread().qsbr_pause();   // the requests become orphans
      unodb::this_thread().qsbr_resume();
      phase.store(2);
      parked.join();
      for (int i = 0; i < 3; ++i) unodb::this_thread().quiescent();
      rep().count("pauses_with_pending_requests_after_retried_resume");
      if (vm::alloc_tracker::get().blocks_live() != 0) qfail("resume/retry-not-normal", "after a failed and then repeated qsbr_resume, requests pending at the thread's next pause were not executed", json::object().set("blocks", static_cast<u64>(vm::alloc_tracker::get().blocks_live())));
    }
  }
  // 2. qsbr_thread construction
  {
    const auto s0 = state();
    for (u64 k = 1; k < 32; ++k) {
      bool threw = false;
      g_context = "qsbr_thread construction k=" + std::to_string(k);
      std::optional<unodb::qsbr_thread> t;
      injector::reset();
      injector::fail_on_nth_allocation(k);
      try { t.emplace([] {}); } catch (const std::bad_alloc&) { threw = true; } catch (const std::system_error&) { threw = true; rep().count("thread_ctor_system_error"); } catch (...) { threw = true; qfail("thread/wrong-exception-type", "qsbr_thread construction failure is not std::bad_alloc"); }
      injector::reset();
      rep().evaluation();
      rep().count("injections.qsbr_thread");
      if (!threw) { t->join(); break; }
      rep().count("failures_surfaced");
      rep().nontrivial(vh::hash_combine(0xA2, k));
      if (state() != s0) { qfail("thread/state-changed", "a failed qsbr_thread construction changed the QSBR state word (thread count)", json::object().set("k", k).set("before", s0).set("after", state())); break; }
    }
    // let the joined thread's unregistration settle: back to one thread
    if (unodb::qsbr_state::get_thread_count(state()) != 1) qfail("thread/count-after-join", "thread count is not back to one after the constructed thread was joined");
  }
  // 3. on_next_epoch_deallocate with a second registered thread parked (the request really queues)
  {
    std::atomic<int> phase{0};
    unodb::qsbr_thread parked([&] { phase.store(1); while (phase.load() != 2) std::this_thread::yield(); });
    while (phase.load() != 1) std::this_thread::yield();
    const auto n = 1 + r.below(3);
    for (u64 j = 0; j < n; ++j) {
      auto* p = static_cast<qobj*>(unodb::detail::allocate_aligned(sizeof(qobj)));
      const auto s0 = state();
      const bool cur_empty0 = unodb::this_thread().current_interval_requests_empty();
      for (u64 k = 1; k < 16; ++k) {
        bool threw = false;
        g_context = "on_next_epoch_deallocate k=" + std::to_string(k);
        injector::reset();
        injector::fail_on_nth_allocation(k);
        try {
          unodb::this_thread().on_next_epoch_deallocate(p, sizeof(qobj), nullptr);
        } catch (const std::bad_alloc&) { threw = true; } catch (...) { threw = true; qfail("dealloc/wrong-exception-type", "on_next_epoch_deallocate failure is not std::bad_alloc"); }
        injector::reset();
        rep().evaluation();
        rep().count("injections.on_next_epoch_deallocate");
        if (!threw) break;
        rep().count("failures_surfaced");
        rep().nontrivial(vh::hash_combine(0xA3, k * 8 + j));
        if (state() != s0) { qfail("dealloc/state-changed", "a failed deallocation request changed the QSBR state word"); break; }
        if (!vm::alloc_tracker::get().is_live(p)) { qfail("dealloc/pointer-freed", "a failed deallocation request freed the pointer although the caller still owns it"); break; }
        if (j == 0 && unodb::this_thread().current_interval_requests_empty() != cur_empty0) { qfail("dealloc/request-queued", "a failed deallocation request left the request queued although the caller still owns the pointer"); break; }
      }
    }
    phase.store(2);
    parked.join();
    unodb::this_thread().quiescent();
    unodb::this_thread().quiescent();
    if (vm::alloc_tracker::get().blocks_live() != 0) qfail("dealloc/leak", "deferred requests were not executed after the second thread left and two quiescent states passed", json::object().set("blocks", static_cast<u64>(vm::alloc_tracker::get().blocks_live())));
  }
  // 4. on_next_epoch_deallocate after a random prelude of {request, own quiescent state, the other thread's quiescent state}:
  //    reaches the call with requests pending in either interval and with the caller's view of the epoch current or stale
  {
    companion* c = nullptr;
    { vm::alloc_tracker::scoped_ignore ig; c = new companion; }
    auto epoch_now = [&] { return unodb::qsbr_state::get_epoch(state()); };
    auto seen = epoch_now();  // the global epoch at the caller's latest QSBR call
    const auto rounds = 1 + r.below(3);
    bool bad = false;
    for (u64 round = 0; round < rounds && !bad; ++round) {
      const auto prelude = r.below(7);
      for (u64 i = 0; i < prelude; ++i) {
        const auto x = r.below(10);
        if (x < 4) {
          auto* q = static_cast<qobj*>(unodb::detail::allocate_aligned(sizeof(qobj)));
          unodb::this_thread().on_next_epoch_deallocate(q, sizeof(qobj), nullptr);
          seen = epoch_now();
        } else if (x < 7) {
          unodb::this_thread().quiescent();
          seen = epoch_now();
        } else {
          c->quiesce();
        }
      }
      if (r.chance(0.6)) { unodb::this_thread().quiescent(); seen = epoch_now(); c->quiesce(); }  // the classic way to fall one epoch behind
      const bool stale = !(epoch_now() == seen);
      const bool pending = !unodb::this_thread().current_interval_requests_empty() || !unodb::this_thread().previous_interval_requests_empty();
      auto* p = static_cast<qobj*>(unodb::detail::allocate_aligned(sizeof(qobj)));
      const auto s0 = qcapture();
      const auto live0 = vm::alloc_tracker::get().snapshot();
      for (u64 k = 1; k < 16; ++k) {
        bool threw = false;
        g_context = std::string("on_next_epoch_deallocate (") + (stale ? "stale" : "current") + " epoch view, " + (pending ? "requests pending" : "nothing pending") + ") k=" + std::to_string(k);
        injector::reset();
        injector::fail_on_nth_allocation(k);
        try {
          unodb::this_thread().on_next_epoch_deallocate(p, sizeof(qobj), nullptr);
        } catch (const std::bad_alloc&) { threw = true; } catch (...) { threw = true; qfail("dealloc/wrong-exception-type", "on_next_epoch_deallocate failure is not std::bad_alloc"); }
        injector::reset();
        rep().evaluation();
        rep().count("injections.on_next_epoch_deallocate");
        if (!threw) break;
        rep().count("failures_surfaced");
        rep().count(stale ? (pending ? "dealloc_failures.stale_epoch_view.requests_pending" : "dealloc_failures.stale_epoch_view.nothing_pending")
                          : (pending ? "dealloc_failures.current_epoch_view.requests_pending" : "dealloc_failures.current_epoch_view.nothing_pending"));
        rep().nontrivial(vh::hash_combine(0xA4, k * 4 + (stale ? 2 : 0) + (pending ? 1 : 0)));
        const auto d = s0.diff(qcapture());
        if (!d.empty()) { qfail("dealloc/state-changed", "a failed deallocation request changed what QSBR reports: " + d, json::object().set("what", d).set("stale_epoch_view", stale).set("requests_pending", pending).set("k", k)); bad = true; break; }
        if (vm::alloc_tracker::get().snapshot() != live0) { qfail("dealloc/blocks-freed", "a failed deallocation request executed (or lost) pending requests: the set of live blocks changed", json::object().set("stale_epoch_view", stale).set("requests_pending", pending).set("k", k)); bad = true; break; }
      }
      seen = epoch_now();
    }
    // drain: both threads pass three rounds, then the companion leaves
    for (int i = 0; i < 3; ++i) { unodb::this_thread().quiescent(); c->quiesce(); }
    { vm::alloc_tracker::scoped_ignore ig; c->stop(); delete c; }
    unodb::this_thread().quiescent();
    unodb::this_thread().quiescent();
    if (!bad && vm::alloc_tracker::get().blocks_live() != 0) qfail("dealloc/leak", "deferred requests were not executed after three rounds of quiescent states, the second thread leaving and two more quiescent states", json::object().set("blocks", static_cast<u64>(vm::alloc_tracker::get().blocks_live())));
  }
  rep().count("qsbr_cases");
}

bool g_poisoned = false;
template <class Db>
void run_one(u64 idx, vh::rng& r, const vh::args& a) { history<Db> h(idx, r, a); h.run(); g_poisoned |= h.poisoned; }

void fatal_handler(const std::string& kind, const std::string& what) {
  json wj = json::object().set("context", g_context).set("scheduler", what);
  rep().violation("C08", "oom/lock-left-held", "after an injected failure a single-threaded sweep on olc_db cannot finish: " + kind + " (" + what + ")", wj);
  rep().violation("C14", "oom/lock-left-held", "after an injected failure a single-threaded sweep on olc_db cannot finish: " + kind + " (" + what + ")", wj);
  rep().set_resume(g_case + 1);
  rep().finish();
}

void crash_context(int sig) {
  static bool once = false;
  if (!once) {
    once = true;
    injector::reset();
    const auto text = "\nVERIF-CRASH-CONTEXT: {\"case\":" + std::to_string(g_case) + ",\"context\":\"" + g_context + "\"}\n";
    (void)!write(2, text.data(), text.size());
  }
  signal(sig, SIG_DFL);
  raise(sig);
}

}  // namespace

int main(int argc, char** argv) {
  const vh::args a(argc, argv);
  rep().init(a, "oom");
  g_prop = a.str("prop", "C08");
  unodb::verif::on_alloc.store(alloc_cb);
  unodb::verif::on_dealloc.store(dealloc_cb);
  vs::install_hooks();
  vs::S().on_fatal = fatal_handler;
  if (!lockmon::selftest()) rep().inconclusive("oom: pthread_mutex interposition does not intercept std::mutex in this build; the mutex-left-locked monitor is inactive");
  signal(SIGABRT, crash_context);
  signal(SIGSEGV, crash_context);
  const vh::case_range cr(a);
  using V = unodb::value_view;
  const bool olc_only = g_prop == "C14";
  for (u64 c = cr.begin; c < cr.end; ++c) {
    g_case = c;
    rep().progress_case(c, g_prop.c_str());
    vh::rng r(vh::case_seed(rep().seed, c, 0x003));
    const u64 combo = olc_only ? 4 + c % 2 : c % 7;
    switch (combo) {
      case 0: run_one<unodb::db<std::uint64_t, V>>(c, r, a); break;
      case 1: run_one<unodb::db<unodb::key_view, V>>(c, r, a); break;
      case 2: run_one<unodb::mutex_db<std::uint64_t, V>>(c, r, a); break;
      case 3: run_one<unodb::mutex_db<unodb::key_view, V>>(c, r, a); break;
      case 4: run_one<unodb::olc_db<std::uint64_t, V>>(c, r, a); break;
      case 5: run_one<unodb::olc_db<unodb::key_view, V>>(c, r, a); break;
      default: qsbr_case(r); break;
    }
    if (g_poisoned) { rep().set_resume(c + 1); break; }  // continue in a fresh process
    if (vm::alloc_tracker::get().blocks_live() != 0) {
      rep().violation("C08", "oom/leak-after-destruction", "blocks still allocated after the index was destroyed", json::object().set("blocks", static_cast<u64>(vm::alloc_tracker::get().blocks_live())));
      rep().set_resume(c + 1);
      break;
    }
    if (rep().violations_for("C08") + rep().violations_for("C14") >= 8) break;
  }
  rep().finish();
  if (g_poisoned) _exit(0);  // skip destructors / leak checking of the deliberately leaked index
  return 0;
}
