// Per-key linearizability checker for a map with insert / remove / get.
// A map is linearizable iff every key's sub-history is (Horn & Kroening 2015),
// and with unique values per insert a key is a register with presence:
//   insert(v) succeeds iff absent (then holds v); fails iff present
//   remove    succeeds iff present (then absent); fails iff absent
//   get       returns the held value, or nothing iff absent
//   clear     (projection of a whole-index clear on this key) always succeeds, then absent
// Wing-Gong search with memoisation over (set of linearized ops, state).
#ifndef VERIF_LINCHECK_HPP
#define VERIF_LINCHECK_HPP

#include <algorithm>
#include <cstdint>
#include <unordered_set>
#include <vector>

#include "common/vh.hpp"

namespace vl {

using vh::u64;

enum opkind : int { INSERT = 0, REMOVE = 1, GET = 2, CLEAR = 3 };  // CLEAR: projection of clear() on one key: always fits, leaves it absent

constexpr u64 PENDING = ~u64{0};

struct op {
  int kind{GET};
  int thread{0};
  u64 call{0};
  u64 ret{PENDING};  // PENDING: never returned (kept open to the end of the history)
  bool ok{false};    // insert/remove: result; get: found
  u64 value{0};      // insert: unique id (>0) of the value written; get: id observed when found
  int tag{0};        // free for the caller (e.g. index into its own op list; scan pseudo-gets)

  vh::json to_json() const {
    static const char* names[] = {"insert", "remove", "get", "clear"};
    auto j = vh::json::object().set("op", names[kind]).set("thread", thread).set("call", call);
    if (ret == PENDING) j.set("ret", "pending"); else j.set("ret", ret);
    j.set("ok", ok);
    if (kind == INSERT || (kind == GET && ok)) j.set("value", value);
    if (tag != 0) j.set("tag", tag);
    return j;
  }
};

struct verdict {
  bool linearizable{false};
  bool inconclusive{false};  // search budget exhausted or too many ops
  u64 nodes{0};
};

class checker {
 public:
  // ops of ONE key; initial: 0 = absent, else the id of the value present at the start
  static verdict check(std::vector<op> ops, u64 initial, u64 budget = 4'000'000) {
    verdict v;
    if (ops.size() > 62) { v.inconclusive = true; return v; }
    std::sort(ops.begin(), ops.end(), [](const op& a, const op& b) { return a.call < b.call; });
    checker c(ops, budget);
    v.linearizable = c.dfs(0, initial);
    v.nodes = c.nodes;
    if (!v.linearizable && c.nodes >= budget) { v.inconclusive = true; }
    return v;
  }

 private:
  checker(const std::vector<op>& o, u64 b) : ops(o), budget(b) {
    required = 0;
    for (std::size_t i = 0; i < ops.size(); ++i) if (ops[i].ret != PENDING) required |= u64{1} << i;
  }

  bool dfs(u64 mask, u64 state) {
    if ((mask & required) == required) return true;
    if (++nodes >= budget) return false;
    if (!seen.insert({mask, state}).second) return false;  // exact memo (no hash-only keys)
    // earliest return among un-linearized completed ops bounds the candidates
    u64 min_ret = PENDING;
    for (std::size_t i = 0; i < ops.size(); ++i)
      if (((mask >> i) & 1) == 0 && ops[i].ret < min_ret) min_ret = ops[i].ret;
    for (std::size_t i = 0; i < ops.size(); ++i) {
      if ((mask >> i) & 1) continue;
      const op& o = ops[i];
      if (o.call > min_ret) break;  // sorted by call: every later op was called after some pending return
      u64 next = state;
      bool fits = false;
      const bool pend = o.ret == PENDING;
      switch (o.kind) {
        case INSERT:
          if (pend) { fits = true; if (state == 0) next = o.value; }
          else if (o.ok) { fits = state == 0; next = o.value; }
          else fits = state != 0;
          break;
        case CLEAR:
          fits = true; next = 0;
          break;
        case REMOVE:
          if (pend) { fits = true; next = 0; }
          else if (o.ok) { fits = state != 0; next = 0; }
          else fits = state == 0;
          break;
        default:
          if (pend) fits = true;
          else if (o.ok) fits = state != 0 && state == o.value;
          else fits = state == 0;
      }
      if (fits && dfs(mask | (u64{1} << i), next)) return true;
    }
    return false;
  }

  const std::vector<op>& ops;
  u64 budget;
  u64 required{0};
  u64 nodes{0};
  struct pair_hash { std::size_t operator()(const std::pair<u64, u64>& p) const noexcept { return static_cast<std::size_t>(vh::hash_combine(p.first, p.second)); } };
  std::unordered_set<std::pair<u64, u64>, pair_hash> seen;
};

}  // namespace vl

#endif  // VERIF_LINCHECK_HPP
