// Common harness support: PRNG, hashing, minimal JSON, argument parsing,
// report / progress files. Header-only, no dependency on unodb.
//
// Conventions shared by every harness binary (see /verif/vlib/run.py):
//   --seed <u64>        PRNG stream of this worker
//   --cases <n>         number of cases this worker generates
//   --first <i>         index of the first case (default 0)
//   --only <i>          run exactly case i (replay), verbose witness
//   --report <path>     JSON report written at normal exit
//   --progress <path>   small file, mmap'd; always holds the case being run
//   --hashes <path>     binary file of u64 hashes of distinct non-trivial cases
// A case is a deterministic function of (seed, case index, engine parameters).
// Exit status 0 = ran to completion (violations, if any, are in the report).
#ifndef VERIF_VH_HPP
#define VERIF_VH_HPP

#include <fcntl.h>
#include <sys/mman.h>
#include <sys/stat.h>
#include <unistd.h>

#include <algorithm>
#include <atomic>
#include <cinttypes>
#include <cstdint>
#include <cstdio>
#include <cstdlib>
#include <cstring>
#include <map>
#include <mutex>
#include <string>
#include <unordered_set>
#include <utility>
#include <vector>

namespace vh {

using u64 = std::uint64_t;
using u32 = std::uint32_t;
using u8 = std::uint8_t;

// ---------------------------------------------------------------- hashing
inline u64 mix64(u64 x) noexcept {
  x += 0x9E3779B97F4A7C15ULL;
  x = (x ^ (x >> 30)) * 0xBF58476D1CE4E5B9ULL;
  x = (x ^ (x >> 27)) * 0x94D049BB133111EBULL;
  return x ^ (x >> 31);
}
// both inputs are mixed before they meet: the boost-style "h ^ (v + C + (h<<6) + (h>>2))"
// collides for small h and v (it once made the linearizability memo drop a state)
inline u64 hash_combine(u64 h, u64 v) noexcept {
  return mix64(mix64(h) + 0x9E3779B97F4A7C15ULL * (mix64(v ^ 0xD1B54A32D192ED03ULL) | 1));
}
inline u64 hash_bytes(const void* p, std::size_t n, u64 h = 0x1234567) noexcept {
  const auto* b = static_cast<const unsigned char*>(p);
  for (std::size_t i = 0; i < n; ++i) h = (h ^ b[i]) * 0x100000001B3ULL;
  return mix64(h ^ n);
}
inline u64 hash_str(const std::string& s, u64 h = 0x1234567) noexcept {
  return hash_bytes(s.data(), s.size(), h);
}

// ------------------------------------------------------------------- PRNG
struct rng {
  u64 s[2];
  explicit rng(u64 seed = 1) noexcept { reseed(seed); }
  void reseed(u64 seed) noexcept {
    s[0] = mix64(seed);
    s[1] = mix64(s[0] ^ 0xDEADBEEFCAFEF00DULL);
    if ((s[0] | s[1]) == 0) s[0] = 1;
  }
  u64 next() noexcept {  // xoroshiro128+
    const u64 a = s[0];
    u64 b = s[1];
    const u64 r = a + b;
    b ^= a;
    s[0] = ((a << 24) | (a >> 40)) ^ b ^ (b << 16);
    s[1] = (b << 37) | (b >> 27);
    return r;
  }
  // uniform in [0, n)
  u64 below(u64 n) noexcept { return n == 0 ? 0 : (next() >> 11) % n; }
  // uniform in [lo, hi]
  u64 range(u64 lo, u64 hi) noexcept { return lo + below(hi - lo + 1); }
  bool chance(double p) noexcept {
    return static_cast<double>(next() >> 11) * (1.0 / 9007199254740992.0) < p;
  }
  template <class V>
  const typename V::value_type& pick(const V& v) noexcept {
    return v[below(v.size())];
  }
};

// ------------------------------------------------------------- tiny JSON
class json {
 public:
  enum kind_t { NUL, BOOL, INT, UINT, DBL, STR, ARR, OBJ };
  json() = default;
  json(bool b) : k(BOOL), i(b) {}                        // NOLINT
  json(int v) : k(INT), i(v) {}                          // NOLINT
  json(long v) : k(INT), i(v) {}                         // NOLINT
  json(long long v) : k(INT), i(v) {}                    // NOLINT
  json(unsigned v) : k(UINT), u(v) {}                    // NOLINT
  json(unsigned long v) : k(UINT), u(v) {}               // NOLINT
  json(unsigned long long v) : k(UINT), u(v) {}          // NOLINT
  json(double v) : k(DBL), d(v) {}                       // NOLINT
  json(const char* v) : k(STR), s(v) {}                  // NOLINT
  json(std::string v) : k(STR), s(std::move(v)) {}       // NOLINT
  static json array() { json j; j.k = ARR; return j; }
  static json object() { json j; j.k = OBJ; return j; }
  json& push(json v) { if (k != ARR) { *this = array(); } a.push_back(std::move(v)); return *this; }
  json& set(const std::string& key, json v) {
    if (k != OBJ) *this = object();
    for (auto& kv : o) if (kv.first == key) { kv.second = std::move(v); return *this; }
    o.emplace_back(key, std::move(v));
    return *this;
  }
  std::size_t size() const { return k == ARR ? a.size() : o.size(); }
  std::string dump() const { std::string out; dump_to(out); return out; }
  void dump_to(std::string& out) const {
    char buf[64];
    switch (k) {
      case NUL: out += "null"; break;
      case BOOL: out += i ? "true" : "false"; break;
      case INT: std::snprintf(buf, sizeof buf, "%lld", static_cast<long long>(i)); out += buf; break;
      case UINT: std::snprintf(buf, sizeof buf, "%llu", static_cast<unsigned long long>(u)); out += buf; break;
      case DBL:
        if (d != d) { out += "\"nan\""; break; }
        if (d > 1.7e308 || d < -1.7e308) { out += d > 0 ? "\"inf\"" : "\"-inf\""; break; }
        std::snprintf(buf, sizeof buf, "%.9g", d);
        out += buf;
        break;
      case STR: esc(out, s); break;
      case ARR: {
        out += '[';
        bool first = true;
        for (const auto& v : a) { if (!first) out += ','; first = false; v.dump_to(out); }
        out += ']';
        break;
      }
      case OBJ: {
        out += '{';
        bool first = true;
        for (const auto& kv : o) { if (!first) out += ','; first = false; esc(out, kv.first); out += ':'; kv.second.dump_to(out); }
        out += '}';
        break;
      }
    }
  }

 private:
  static void esc(std::string& out, const std::string& v) {
    out += '"';
    for (const unsigned char c : v) {
      if (c == '"' || c == '\\') { out += '\\'; out += static_cast<char>(c); }
      else if (c == '\n') out += "\\n";
      else if (c == '\t') out += "\\t";
      else if (c < 0x20 || c >= 0x7f) { char b[8]; std::snprintf(b, sizeof b, "\\u%04x", c); out += b; }
      else out += static_cast<char>(c);
    }
    out += '"';
  }
  kind_t k{NUL};
  long long i{0};
  unsigned long long u{0};
  double d{0};
  std::string s;
  std::vector<json> a;
  std::vector<std::pair<std::string, json>> o;
};

inline std::string hex(const void* p, std::size_t n) {
  static const char* d = "0123456789abcdef";
  const auto* b = static_cast<const unsigned char*>(p);
  std::string r;
  r.reserve(n * 2);
  for (std::size_t i = 0; i < n; ++i) { r += d[b[i] >> 4]; r += d[b[i] & 15]; }
  return r;
}
inline std::string hex(const std::string& s) { return hex(s.data(), s.size()); }
inline std::string hex64(u64 v) { char b[24]; std::snprintf(b, sizeof b, "%016" PRIx64, v); return b; }

// ------------------------------------------------------------------ args
struct args {
  std::map<std::string, std::string> kv;
  args(int argc, char** argv) {
    for (int i = 1; i < argc; ++i) {
      std::string a = argv[i];
      if (a.rfind("--", 0) != 0) { std::fprintf(stderr, "bad arg %s\n", a.c_str()); std::exit(3); }
      a = a.substr(2);
      if (i + 1 < argc && std::strncmp(argv[i + 1], "--", 2) != 0) { kv[a] = argv[++i]; }
      else kv[a] = "1";
    }
  }
  bool has(const std::string& k) const { return kv.count(k) != 0; }
  std::string str(const std::string& k, const std::string& d = "") const { auto it = kv.find(k); return it == kv.end() ? d : it->second; }
  u64 num(const std::string& k, u64 d = 0) const { auto it = kv.find(k); return it == kv.end() ? d : std::strtoull(it->second.c_str(), nullptr, 0); }
  double dbl(const std::string& k, double d = 0) const { auto it = kv.find(k); return it == kv.end() ? d : std::strtod(it->second.c_str(), nullptr); }
};

// -------------------------------------------------------------- reporter
// Thread-safe (one mutex); harnesses that call it from several free-running
// threads do so only at round boundaries.
class reporter {
 public:
  static reporter& get() { static reporter r; return r; }

  void init(const args& a, const char* engine_name) {
    engine = engine_name;
    report_path = a.str("report");
    hashes_path = a.str("hashes");
    const auto pp = a.str("progress");
    if (!pp.empty()) {
      const int fd = ::open(pp.c_str(), O_RDWR | O_CREAT | O_TRUNC, 0644);
      if (fd >= 0 && ::ftruncate(fd, kProgress) == 0) {
        void* m = ::mmap(nullptr, kProgress, PROT_READ | PROT_WRITE, MAP_SHARED, fd, 0);
        if (m != MAP_FAILED) progress = static_cast<char*>(m);
      }
      if (fd >= 0) ::close(fd);
    }
    seed = a.num("seed", 1);
    verbose = a.has("only") || a.has("verbose");
  }

  // Record which case is about to run (for crash attribution).
  void progress_case(u64 case_index, const char* extra = "") noexcept {
    cur_case = case_index;
    if (progress == nullptr) return;
    std::snprintf(progress, kProgress, "{\"seed\":%" PRIu64 ",\"case\":%" PRIu64 ",\"extra\":\"%s\"}\n", seed, case_index, extra);
  }
  // Free-form detail appended after the case line (kept short).
  void progress_detail(const std::string& s) noexcept {
    if (progress == nullptr) return;
    const auto len = std::strlen(progress);
    if (len + 2 >= kProgress) return;
    std::snprintf(progress + len, kProgress - len, "%s\n", s.c_str());
  }

  void count(const std::string& name, u64 delta = 1) { const std::lock_guard<std::mutex> g{m}; counters[name] += delta; }
  void count_max(const std::string& name, u64 v) { const std::lock_guard<std::mutex> g{m}; auto& c = counters[name]; if (v > c) c = v; }
  void evaluation(u64 n = 1) { evaluations.fetch_add(n, std::memory_order_relaxed); }
  // A case that is non-trivial by the engine's rule, identified by a hash.
  void nontrivial(u64 h) { const std::lock_guard<std::mutex> g{m}; distinct.insert(h); ++nontrivial_total; }
  // Non-trivial cases that are distinct by construction (exhaustive sweeps).
  void nontrivial_counted(u64 n) { const std::lock_guard<std::mutex> g{m}; distinct_by_construction += n; nontrivial_total += n; }
  void sample(json j, std::size_t max_samples = 4) { const std::lock_guard<std::mutex> g{m}; if (samples.size() < max_samples) samples.push(std::move(j)); }
  void note(const std::string& k, json v) { const std::lock_guard<std::mutex> g{m}; notes.set(k, std::move(v)); }

  // A violation. [key] identifies the *kind* of failure (stable across seeds);
  // [witness] holds the concrete failing case.
  void violation(const std::string& prop, const std::string& key, const std::string& what, json witness = json::object()) {
    const std::lock_guard<std::mutex> g{m};
    ++violation_total;
    ++per_prop[prop];
    const auto id = prop + "|" + key;
    auto& n = violation_keys[id];
    ++n;
    if (n > 3 || violations.size() >= 40) return;  // keep the first few per key
    json v = json::object();
    v.set("property", prop).set("key", key).set("what", what).set("case", cur_case).set("seed", seed).set("witness", std::move(witness));
    violations.push(std::move(v));
    if (verbose) std::fprintf(stderr, "VIOLATION %s %s: %s\n", prop.c_str(), key.c_str(), what.c_str());
  }
  // The worker stops early (scheduler verdict, poisoned process state); the driver
  // continues with a fresh process from this case index.
  void set_resume(u64 next_case) { const std::lock_guard<std::mutex> g{m}; resume_from = static_cast<long long>(next_case); }
  void inconclusive(const std::string& why) { const std::lock_guard<std::mutex> g{m}; if (inconcl.size() < 20) inconcl.push(why); ++inconclusive_total; }
  u64 violations_so_far() { const std::lock_guard<std::mutex> g{m}; return violation_total; }
  u64 violations_for(const std::string& prop) { const std::lock_guard<std::mutex> g{m}; const auto it = per_prop.find(prop); return it == per_prop.end() ? 0 : it->second; }

  void finish() {
    const std::lock_guard<std::mutex> g{m};
    if (!hashes_path.empty()) {
      FILE* f = std::fopen(hashes_path.c_str(), "wb");
      if (f != nullptr) {
        std::vector<u64> v(distinct.begin(), distinct.end());
        if (!v.empty()) std::fwrite(v.data(), sizeof(u64), v.size(), f);
        std::fclose(f);
      }
    }
    json r = json::object();
    r.set("engine", engine).set("seed", seed).set("evaluations", evaluations.load());
    r.set("nontrivial_total", nontrivial_total).set("distinct_hashed", static_cast<u64>(distinct.size()));
    r.set("distinct_by_construction", distinct_by_construction);
    json c = json::object();
    for (const auto& kv : counters) c.set(kv.first, kv.second);
    r.set("counters", std::move(c)).set("samples", samples).set("notes", notes);
    r.set("violation_total", violation_total).set("violations", violations);
    r.set("inconclusive_total", inconclusive_total).set("inconclusive", inconcl);
    if (resume_from >= 0) r.set("resume_from", resume_from);
    const auto text = r.dump();
    if (!report_path.empty()) {
      FILE* f = std::fopen((report_path + ".tmp").c_str(), "w");
      if (f != nullptr) {
        std::fwrite(text.data(), 1, text.size(), f);
        std::fclose(f);
        std::rename((report_path + ".tmp").c_str(), report_path.c_str());
      }
    } else {
      std::printf("%s\n", text.c_str());
    }
  }

  bool verbose{false};
  u64 seed{1};
  u64 cur_case{0};

 private:
  static constexpr std::size_t kProgress = 4096;
  std::mutex m;
  std::string engine, report_path, hashes_path;
  char* progress{nullptr};
  std::atomic<u64> evaluations{0};
  u64 nontrivial_total{0}, distinct_by_construction{0}, violation_total{0}, inconclusive_total{0};
  long long resume_from{-1};
  std::unordered_set<u64> distinct;
  std::map<std::string, u64> counters;
  std::map<std::string, u64> violation_keys, per_prop;
  json samples = json::array(), violations = json::array(), inconcl = json::array(), notes = json::object();
};

inline reporter& rep() { return reporter::get(); }

// Case range helper: [first, first+cases) or the single --only case.
struct case_range {
  u64 begin, end;
  explicit case_range(const args& a) {
    if (a.has("only")) { begin = a.num("only"); end = begin + 1; }
    else { begin = a.num("first", 0); end = begin + a.num("cases", 1); }
  }
};

// Seed of one case: independent streams per (worker seed, case index).
inline u64 case_seed(u64 seed, u64 case_index, u64 salt = 0) noexcept {
  return mix64(hash_combine(hash_combine(seed, case_index), salt));
}

}  // namespace vh

#endif  // VERIF_VH_HPP
