// Deterministic "is a std::mutex left locked by this thread?" monitor: the harness
// executable defines pthread_mutex_lock / unlock / trylock itself (they preempt libc's for
// every caller in the executable: std::mutex::lock -> __gthread_mutex_lock ->
// pthread_mutex_lock), forwards to the real functions (dlsym RTLD_NEXT) and keeps a
// per-thread count of mutexes taken minus released while the harness marks itself "inside
// the library". Include in exactly one translation unit; not for sanitizer builds (TSan has
// its own interceptors). Link with -ldl.
#ifndef VERIF_LOCKMON_HPP
#define VERIF_LOCKMON_HPP

#include <dlfcn.h>
#include <pthread.h>
#include <unistd.h>

#include <atomic>
#include <mutex>

namespace lockmon {
inline thread_local bool in_lib = false;
inline thread_local int held = 0;
inline thread_local bool resolving = false;
using fn_t = int (*)(pthread_mutex_t*);
inline std::atomic<fn_t> real[3] = {};
inline void resolve_all() noexcept {
  static const char* const names[3] = {"pthread_mutex_lock", "pthread_mutex_unlock", "pthread_mutex_trylock"};
  resolving = true;
  for (int i = 0; i < 3; ++i) {
    const auto f = reinterpret_cast<fn_t>(::dlsym(RTLD_NEXT, names[i]));
    if (f == nullptr) { static const char msg[] = "lockmon: dlsym failed\n"; (void)!::write(2, msg, sizeof msg - 1); ::_exit(2); }
    real[i].store(f, std::memory_order_release);
  }
  resolving = false;
}
inline fn_t fn(int i) noexcept {
  auto f = real[i].load(std::memory_order_acquire);
  if (f == nullptr) { resolve_all(); f = real[i].load(std::memory_order_acquire); }
  return f;
}
__attribute__((constructor(101))) inline void resolve_early() noexcept { (void)fn(0); }
struct scope { scope() { held = 0; in_lib = true; } ~scope() { in_lib = false; } };
// does std::mutex really go through the interposed functions in this toolchain?
inline bool selftest() {
  std::mutex m;
  int inside;
  {
    const scope s;
    m.lock();
    inside = held;
    m.unlock();
  }
  return inside == 1 && held == 0;
}
}  // namespace lockmon

extern "C" {
inline int lockmon_dummy_;
}
extern "C" int pthread_mutex_lock(pthread_mutex_t* m) {
  if (lockmon::resolving) return 0;
  const int r = lockmon::fn(0)(m);
  if (r == 0 && lockmon::in_lib) ++lockmon::held;
  return r;
}
extern "C" int pthread_mutex_unlock(pthread_mutex_t* m) {
  if (lockmon::resolving) return 0;
  const int r = lockmon::fn(1)(m);
  if (r == 0 && lockmon::in_lib) --lockmon::held;
  return r;
}
extern "C" int pthread_mutex_trylock(pthread_mutex_t* m) {
  if (lockmon::resolving) return 0;
  const int r = lockmon::fn(2)(m);
  if (r == 0 && lockmon::in_lib) ++lockmon::held;
  return r;
}

#endif  // VERIF_LOCKMON_HPP
