// Serialized, seeded scheduler driven from the UNODB_DETAIL_VERIF_HOOKS
// scheduling points. Real OS threads execute the real library code; a token
// decides which one runs. At every hook the running thread asks the scheduler
// whether to continue or to hand the token to another thread (futex hand-off).
//
// Liveness is decided logically, never by wall-clock:
//  * a thread that reaches a SPIN point (a wait-loop body or a back-off before a
//    restart) is "spinning" until some thread performs a write-kind step; a
//    spinning thread is scheduled only when no other thread can run;
//  * every unfinished thread has spun kSpinLimit times in a row while nobody
//    performed a write-kind step (the shared state cannot change any more)
//    => DEADLOCK verdict;
//  * more than max_steps steps in one execution => LIVELOCK verdict.
// Both verdicts end the worker process after the report is written (threads
// stuck inside library loops cannot be unwound); the driver resumes the
// worker after the offending case (report field "resume_from").
#ifndef VERIF_SCHED_HPP
#define VERIF_SCHED_HPP

#include <linux/futex.h>
#include <pthread.h>
#include <sys/syscall.h>
#include <unistd.h>

#include <atomic>
#include <climits>
#include <functional>
#include <string>
#include <vector>

#include "common/vh.hpp"
#include "verif_hooks.hpp"

namespace vs {

using vh::u64;

constexpr int MAXT = 10;

enum class strategy { PCT, RANDOM };

struct change_point {
  int thread;   // -1: global step index; else thread-local step index of that thread
  u64 step;
};

struct params {
  strategy strat{strategy::PCT};
  double switch_prob{0.2};            // RANDOM
  std::vector<change_point> changes;  // PCT: priority drops
  std::vector<int> priority_order;    // PCT: thread ids, highest priority first (others appended by id)
  std::vector<std::pair<int, double>> kind_demote;  // PCT: at a hook of this kind, demote the running thread with this probability
  u64 max_steps{400000};
  // Starvation probe: once per execution, a thread that reaches a spin point may keep polling this many times (as if the
  // thread it waits for were descheduled for that long) before it is treated as waiting. Finds behaviour that only
  // changes after very long waits (spin limits, back-off tiers). 0 = a spinning thread yields at once.
  u64 spin_patience{0};
};

inline bool is_write_kind(int k) {
  using namespace unodb::verif;
  switch (k) {
    case LOCK_CAS: case LOCK_UNLOCK: case LOCK_OBSOLETE: case FIELD_STORE: case QSBR_STATE_CAS:
    case QSBR_STATE_FETCH_SUB: case ORPHAN_CAS: case ORPHAN_XCHG: case ORPHAN_TAIL_STORE:
      return true;
    default:
      return false;
  }
}

constexpr int K_OP_BOUNDARY = 100;  // harness-level scheduling point (read-like)
constexpr int K_HARNESS_WRITE = 101;  // harness-level shared write

struct switch_rec { u64 step; int from, to, kind; };

class scheduler {
 public:
  static scheduler& get() { static scheduler s; return s; }

  // ------------------------------------------------------------ execution
  // Called by the controlling (main) thread, which becomes thread 0 and holds the token.
  void begin(u64 seed, const params& p) {
    r.reseed(seed);
    prm = p;
    for (auto& t : th) t = thread_rec{};
    nthreads = 1;
    th[0].registered = true;
    current = 0;
    clock = 0;
    steps = 0;
    next_low_priority = -1;
    switches.clear();
    signature = 0x51;
    nswitches = 0;
    intra_op_switches = 0;
    kind_demotions = 0;
    spins = 0;
    restarts = 0;
    patience_spent = false;
    patient_polls = 0;
    verdict.clear();
    kind_counts.assign(128, 0);
    assign_priority(0);
    tl_id = 0;
    pthread_once(&key_once, make_key);
    active.store(true, std::memory_order_release);
  }
  void end() {
    active.store(false, std::memory_order_release);
    tl_id = -1;
  }
  bool is_active() const { return active.load(std::memory_order_acquire); }

  // Parent (holding the token) reserves an id for a child thread. The child becomes
  // schedulable only after activate(id), i.e. once its OS thread object exists.
  int spawn_slot() {
    const int id = nthreads++;
    if (id >= MAXT) { std::fprintf(stderr, "sched: too many threads\n"); std::abort(); }
    assign_priority(id);
    return id;
  }
  void activate(int id) {
    th[id].registered = true;
    note_write();
  }
  // First call in the child thread: blocks until the scheduler hands it the token.
  void thread_start(int id) {
    tl_id = id;
    pthread_setspecific(exit_key, reinterpret_cast<void*>(static_cast<intptr_t>(id + 1)));
    wait_for_token(id);
  }
  // Managed join: the caller gives up the token until thread `id` is completely gone.
  template <class Thread>
  void join(int id, Thread& t) {
    const int me = tl_id;
    if (!th[id].finished) {
      th[me].join_target = id;
      yield_token(me, K_OP_BOUNDARY);
      th[me].join_target = -1;
    }
    t.join();
  }

  // ---------------------------------------------------------------- hooks
  static void hook(int kind, const void* addr) noexcept { get().on_sched(kind, addr); }

  void on_sched(int kind, const void* addr) noexcept {
    const int me = tl_id;
    if (me < 0 || tl_quiet > 0 || !active.load(std::memory_order_relaxed)) return;
    (void)addr;
    ++steps;
    ++clock;
    ++th[me].local_steps;
    ++th[me].op_steps;
    if (kind >= 0 && kind < 128) ++kind_counts[static_cast<std::size_t>(kind)];
    if (kind == unodb::verif::SPIN) {
      ++th[me].spin_streak;
      ++spins;
      if (!patience_spent && prm.spin_patience != 0 && th[me].spin_streak <= prm.spin_patience) {
        ++patient_polls;  // keeps the token: the lock holder stays descheduled
      } else {
        if (prm.spin_patience != 0 && th[me].spin_streak > prm.spin_patience) patience_spent = true;
        th[me].spinning = true;
      }
    }
    else if (kind == unodb::verif::RESTART) ++restarts;
    if (is_write_kind(kind) || kind == K_HARNESS_WRITE) { note_write_by(me); th[me].spinning = false; th[me].spin_streak = 0; }
    if (steps > prm.max_steps) fatal_verdict("livelock", "execution exceeded the step budget under the scheduler");
    // parking requested by a directed script
    if (th[me].park_armed && th[me].op_steps == th[me].park_at) {
      th[me].park_armed = false;
      th[me].parked = true;
      th[me].park_hit = true;
    }
    apply_change_points(me, kind);
    const int next = pick(me, kind);
    if (next != me) do_switch(me, next, kind);
  }

  // harness-level scheduling point between operations
  void op_boundary() noexcept { on_sched(K_OP_BOUNDARY, nullptr); }
  // harness-level shared write (un-spins waiters)
  void harness_write() noexcept { on_sched(K_HARNESS_WRITE, nullptr); }
  // a fresh stamp from the global event clock
  u64 stamp() noexcept { return ++clock; }
  u64 now() const noexcept { return clock; }
  int self() const noexcept { return tl_id; }
  void begin_op() noexcept { if (tl_id >= 0) th[tl_id].op_steps = 0; }
  u64 op_steps() const noexcept { return tl_id >= 0 ? th[tl_id].op_steps : 0; }

  // Block the calling thread until pred() holds (evaluated by whoever holds the token).
  void block_until(std::function<bool()> pred) {
    const int me = tl_id;
    if (pred()) return;
    th[me].pred = std::move(pred);
    th[me].cond_blocked = true;
    yield_token(me, K_OP_BOUNDARY);
  }
  // Directed scripts: park this thread at the n-th hook (1-based) of its current operation until unpark().
  void arm_park(u64 nth_hook) { th[tl_id].park_armed = true; th[tl_id].park_at = nth_hook; th[tl_id].park_hit = false; th[tl_id].op_steps = 0; }
  bool park_was_hit(int id) const { return th[id].park_hit; }
  void disarm_park() { th[tl_id].park_armed = false; }
  void unpark(int id) { th[id].parked = false; note_write(); }
  bool is_parked(int id) const { return th[id].parked; }

  // monitors call library getters that contain hooks without creating scheduling points
  struct quiet { quiet() { ++tl_quiet; } ~quiet() { --tl_quiet; } };

  // ------------------------------------------------------------- verdicts
  // Set when the scheduler decided deadlock/livelock; the harness's handler runs then.
  std::function<void(const std::string& kind, const std::string& what)> on_fatal;
  // called (by the dying thread, still holding the token) when a managed thread is completely gone
  std::function<void(int id)> on_thread_gone;
  std::string verdict;

  // ---------------------------------------------------------- observation
  u64 steps{0}, nswitches{0}, intra_op_switches{0}, spins{0}, restarts{0}, signature{0x51}, kind_demotions{0};
  u64 patient_polls{0};
  bool patience_spent{false};
  std::vector<switch_rec> switches;
  std::vector<u64> kind_counts;
  int threads_used() const { return nthreads; }
  u64 local_steps(int id) const { return th[id].local_steps; }
  bool finished(int id) const { return th[id].finished; }

  vh::json switches_json(std::size_t limit = 200) const {
    auto a = vh::json::array();
    for (std::size_t i = 0; i < switches.size() && i < limit; ++i)
      a.push(vh::json::array().push(switches[i].step).push(switches[i].from).push(switches[i].to).push(switches[i].kind));
    return a;
  }

 private:
  struct thread_rec {
    std::atomic<int> go{0};
    bool registered{false}, finished{false}, spinning{false}, cond_blocked{false}, parked{false}, park_armed{false}, park_hit{false};
    int join_target{-1};
    int priority{0};
    u64 local_steps{0}, op_steps{0}, park_at{0}, spin_streak{0};
    std::function<bool()> pred;
    thread_rec() = default;
    thread_rec& operator=(thread_rec&& o) noexcept {
      go.store(0);
      registered = o.registered; finished = o.finished; spinning = o.spinning; cond_blocked = o.cond_blocked; parked = o.parked;
      park_armed = o.park_armed; park_hit = o.park_hit; join_target = o.join_target; priority = o.priority; local_steps = o.local_steps; op_steps = o.op_steps; park_at = o.park_at; spin_streak = o.spin_streak;
      pred = std::move(o.pred);
      return *this;
    }
  };

  void assign_priority(int id) {
    // explicit order first (highest = largest number), others random below
    int pos = -1;
    for (std::size_t i = 0; i < prm.priority_order.size(); ++i) if (prm.priority_order[i] == id) pos = static_cast<int>(i);
    if (pos >= 0) th[id].priority = 1000 - pos;
    else th[id].priority = 100 + static_cast<int>(r.below(800)) ;
    if (prm.strat == strategy::PCT && pos < 0) {
      // make priorities distinct
      for (int t = 0; t < nthreads; ++t) if (t != id && th[t].priority == th[id].priority) { th[id].priority -= 1; t = -1; }
    }
  }

  void apply_change_points(int me, int kind) {
    if (prm.strat != strategy::PCT) return;
    for (const auto& c : prm.changes) {
      if ((c.thread < 0 && c.step == steps) || (c.thread == me && c.step == th[me].local_steps)) th[me].priority = next_low_priority--;
    }
    for (const auto& kd : prm.kind_demote)
      if (kd.first == kind && r.chance(kd.second)) { th[me].priority = next_low_priority--; ++kind_demotions; }
  }

  void note_write_by(int me) {
    for (int t = 0; t < nthreads; ++t) if (t != me) { th[t].spinning = false; th[t].spin_streak = 0; }
  }
  void note_write() { note_write_by(tl_id); }

  static constexpr u64 kSpinLimit = 50;

  // runnable, ignoring the spinning flag
  bool eligible(int t) {
    auto& x = th[t];
    if (!x.registered || x.finished || x.parked) return false;
    if (x.join_target >= 0 && !th[x.join_target].finished) return false;
    if (x.cond_blocked) {
      if (!x.pred()) return false;
      x.cond_blocked = false;
      x.pred = nullptr;
    }
    return true;
  }

  // who runs next; me may be ineligible (spinning / blocked / finished)
  int pick(int me, int kind) {
    int cand[MAXT];
    int n = 0;
    int runnable[MAXT];
    int nr = 0;
    for (int t = 0; t < nthreads; ++t) if (eligible(t)) { runnable[nr++] = t; if (!th[t].spinning) cand[n++] = t; }
    if (n == 0 && nr > 0) {
      // only spinning threads can run: let them, unless all of them have spun many times with no write in between
      bool exhausted = true;
      for (int i = 0; i < nr; ++i) if (th[runnable[i]].spin_streak < kSpinLimit) exhausted = false;
      if (!exhausted) {
        int best = runnable[0];
        for (int i = 1; i < nr; ++i) if (th[runnable[i]].spin_streak < th[best].spin_streak) best = runnable[i];
        return best;
      }
    }
    if (n == 0) {
      bool any_unfinished = false;
      for (int t = 0; t < nthreads; ++t) if (th[t].registered && !th[t].finished) any_unfinished = true;
      if (!any_unfinished) return me;
      std::string w = "no runnable thread:";
      for (int t = 0; t < nthreads; ++t) {
        if (!th[t].registered || th[t].finished) continue;
        w += " T" + std::to_string(t) + (th[t].spinning ? "=spinning(x" + std::to_string(th[t].spin_streak) + ")" : (th[t].parked ? "=parked" : (th[t].cond_blocked ? "=blocked" : (th[t].join_target >= 0 ? "=joining" : "=?"))));
      }
      bool only_spin_or_join = true;
      for (int t = 0; t < nthreads; ++t) if (th[t].registered && !th[t].finished && (th[t].parked || th[t].cond_blocked)) only_spin_or_join = false;
      fatal_verdict(only_spin_or_join ? "deadlock" : "harness-stuck", w);
    }
    (void)kind;
    if (prm.strat == strategy::RANDOM) {
      bool me_ok = false;
      for (int i = 0; i < n; ++i) if (cand[i] == me) me_ok = true;
      if (me_ok && !r.chance(prm.switch_prob)) return me;
      return cand[r.below(static_cast<u64>(n))];
    }
    int best = cand[0];
    for (int i = 1; i < n; ++i) if (th[cand[i]].priority > th[best].priority) best = cand[i];
    return best;
  }

  void do_switch(int me, int next, int kind) {
    ++nswitches;
    if (kind != K_OP_BOUNDARY) ++intra_op_switches;
    signature = vh::hash_combine(signature, (static_cast<u64>(me) << 40) ^ (th[me].local_steps << 8) ^ static_cast<u64>(next));
    if (switches.size() < 4000) switches.push_back({steps, me, next, kind});
    current = next;
    wake(next);
    wait_for_token(me);
  }

  // give up the token although not at a library hook (join / block)
  void yield_token(int me, int kind) {
    ++clock;
    const int next = pick(me, kind);
    if (next != me) do_switch(me, next, kind);
  }

  void wake(int t) {
    th[t].go.store(1, std::memory_order_release);
    syscall(SYS_futex, reinterpret_cast<int*>(&th[t].go), FUTEX_WAKE_PRIVATE, 1, nullptr, nullptr, 0);
  }
  void wait_for_token(int me) {
    while (th[me].go.load(std::memory_order_acquire) == 0)
      syscall(SYS_futex, reinterpret_cast<int*>(&th[me].go), FUTEX_WAIT_PRIVATE, 0, nullptr, nullptr, 0);
    th[me].go.store(0, std::memory_order_relaxed);
  }

  [[noreturn]] void fatal_verdict(const std::string& kind, const std::string& what) {
    verdict = kind;
    active.store(false);
    if (on_fatal) on_fatal(kind, what);
    std::fflush(nullptr);
    _exit(0);
  }

  // pthread key destructor: runs after the C++ thread_local destructors of the exiting
  // thread (glibc), i.e. after QSBR unregistered it.
  static void make_key() { pthread_key_create(&exit_key, thread_gone); }
  static void thread_gone(void* v) {
    auto& s = get();
    const int id = static_cast<int>(reinterpret_cast<intptr_t>(v)) - 1;
    if (id < 0 || !s.active.load(std::memory_order_acquire)) return;
    s.th[id].finished = true;
    s.th[id].spinning = false;
    ++s.clock;
    if (s.on_thread_gone) s.on_thread_gone(id);
    s.note_write_by(id);
    tl_id = -1;
    // hand the token on; never returns to this thread
    int cand = -1;
    for (int t = 0; t < s.nthreads; ++t) if (s.eligible(t) && !s.th[t].spinning && (cand < 0 || s.th[t].priority > s.th[cand].priority)) cand = t;
    if (cand < 0) for (int t = 0; t < s.nthreads; ++t) if (s.eligible(t) && (cand < 0 || s.th[t].spin_streak < s.th[cand].spin_streak)) cand = t;
    if (cand < 0) {
      bool any = false;
      for (int t = 0; t < s.nthreads; ++t) if (s.th[t].registered && !s.th[t].finished) any = true;
      if (!any) return;
      tl_id = id;
      s.pick(id, K_OP_BOUNDARY);  // reports the deadlock
      return;
    }
    ++s.nswitches;
    if (s.switches.size() < 4000) s.switches.push_back({s.steps, id, cand, -1});
    s.current = cand;
    s.wake(cand);
  }

  static inline thread_local int tl_id = -1;
  static inline thread_local int tl_quiet = 0;
  static inline pthread_key_t exit_key;
  static inline pthread_once_t key_once = PTHREAD_ONCE_INIT;

  std::atomic<bool> active{false};
  thread_rec th[MAXT];
  int nthreads{0};
  int current{0};
  int next_low_priority{-1};
  u64 clock{0};
  params prm;
  vh::rng r{1};
};

inline scheduler& S() { return scheduler::get(); }

// Install / remove the sched hook.
inline void install_hooks() { unodb::verif::on_sched.store(&scheduler::hook); }

}  // namespace vs

#endif  // VERIF_SCHED_HPP
