// Key universes for the tree engines: families of prefix-free byte-string key
// sets (8-byte big-endian strings stand for uint64 keys), with the rules for
// building legal scan bounds / probe keys inside the same universe.
#ifndef VERIF_UNIVERSE_HPP
#define VERIF_UNIVERSE_HPP

#include <algorithm>
#include <set>
#include <string>
#include <vector>

#include "common/model.hpp"
#include "common/vh.hpp"

namespace vu {

using vm::bytes;

enum class shape { FIXED, TERM, ENC };

struct universe {
  std::string family;
  shape sh{shape::FIXED};
  std::size_t len{8};                       // FIXED: key length
  std::vector<std::vector<unsigned char>> alpha;  // FIXED: per-position alphabet used to draw keys
  std::vector<bytes> keys;                  // candidate keys of this history (all legal together)
  bool u64{false};

  // positions of key k that may be altered to make another legal key
  std::size_t mutable_positions(const bytes& k) const {
    switch (sh) {
      case shape::FIXED: return k.size();
      case shape::TERM: return k.size() - 1;           // body only
      case shape::ENC: return k.size() >= 3 ? k.size() - 3 : 0;  // not the terminator + run length
    }
    return 0;
  }
  bool value_allowed(std::size_t pos, unsigned v) const {
    if (sh == shape::FIXED) return true;
    if (sh == shape::TERM) return v != 0;
    return pos < 2 || v != 0;  // ENC: u16 then text body
  }
  bytes random_tail(vh::rng& r, const bytes& like, std::size_t from) const {
    bytes t;
    if (sh == shape::FIXED) {
      for (std::size_t i = from; i < like.size(); ++i) {
        if (i < alpha.size() && !alpha[i].empty() && r.chance(0.6)) t += static_cast<char>(r.pick(alpha[i]));
        else t += static_cast<char>(r.below(256));
      }
    } else if (sh == shape::TERM) {
      const auto n = r.below(4);
      for (std::size_t i = 0; i < n; ++i) t += static_cast<char>(1 + r.below(255));
      t += '\0';
    } else {
      t = like.substr(from);
    }
    return t;
  }

  // A legal key derived from stored key k by changing position p to a byte that
  // is absent among the siblings at that depth: below the smallest, above the
  // largest, or in a gap ("leaves the tree at depth p on a chosen side").
  // siblings = next bytes of all current keys sharing k[0..p).
  bool falloff(vh::rng& r, const bytes& k, std::size_t p, const std::set<unsigned>& siblings, bytes& out) const {
    std::vector<unsigned> cands;
    const unsigned lo = *siblings.begin(), hi = *siblings.rbegin();
    if (lo > 0 && value_allowed(p, lo - 1)) cands.push_back(lo - 1);
    if (lo > 1 && value_allowed(p, 0)) cands.push_back(0);
    if (hi < 255) cands.push_back(hi + 1);
    if (hi < 254) cands.push_back(255);
    unsigned prev = lo;
    for (const unsigned s : siblings) {
      if (s > prev + 1) cands.push_back(prev + 1 + static_cast<unsigned>(r.below(s - prev - 1)));
      prev = s;
    }
    if (cands.empty()) return false;
    const unsigned x = r.pick(cands);
    if (!value_allowed(p, x)) return false;
    out = k.substr(0, p);
    out += static_cast<char>(x);
    if (sh == shape::ENC || r.chance(0.5)) {
      if (sh == shape::TERM && p + 1 >= k.size()) out += '\0';
      else out += k.substr(p + 1);
    } else {
      out += random_tail(r, k, p + 1);
    }
    return true;
  }
};

inline const std::vector<unsigned>& alpha_sizes() {
  static const std::vector<unsigned> v{1, 2, 3, 4, 5, 16, 17, 48, 49, 256};
  return v;
}

inline std::vector<unsigned char> make_alphabet(vh::rng& r, unsigned size) {
  std::vector<unsigned char> a;
  if (size >= 256) { for (unsigned i = 0; i < 256; ++i) a.push_back(static_cast<unsigned char>(i)); return a; }
  std::set<unsigned> s;
  const auto mode = r.below(4);
  if (mode == 0) { const unsigned base = static_cast<unsigned>(r.below(256 - size + 1)); for (unsigned i = 0; i < size; ++i) s.insert(base + i); }        // contiguous
  else if (mode == 1) { for (unsigned i = 0; i < size && i < 128; ++i) s.insert(i % 2 == 0 ? i / 2 : 255 - i / 2); }                                         // both ends (0x00.., ..0xFF)
  while (s.size() < size) s.insert(static_cast<unsigned>(r.below(256)));
  for (const unsigned v : s) a.push_back(static_cast<unsigned char>(v));
  return a;
}

inline void draw_fixed_keys(vh::rng& r, universe& u, std::size_t want) {
  std::set<bytes, vm::byte_less> ks;
  double space = 1;
  for (const auto& a : u.alpha) space = std::min(space * static_cast<double>(a.size()), 1e18);
  if (space <= static_cast<double>(want) * 1.5 && space <= 5000) {
    // enumerate the whole product space
    std::vector<bytes> cur{bytes()};
    for (const auto& a : u.alpha) {
      std::vector<bytes> nxt;
      for (const auto& p : cur) for (const auto c : a) nxt.push_back(p + static_cast<char>(c));
      cur.swap(nxt);
    }
    for (auto& k : cur) ks.insert(std::move(k));
  } else {
    std::size_t tries = 0;
    while (ks.size() < want && tries++ < want * 20) {
      bytes k;
      for (const auto& a : u.alpha) k += static_cast<char>(r.pick(a));
      ks.insert(std::move(k));
    }
  }
  u.keys.assign(ks.begin(), ks.end());
}

// Families. `bytestring` = false: 8-byte keys standing for uint64.
inline universe make_universe(vh::rng& r, bool bytestring, std::size_t size_hint) {
  universe u;
  u.u64 = !bytestring;
  const auto fam = r.below(bytestring ? 9 : 6);
  const std::size_t want = size_hint;
  const std::size_t L = 8;
  auto fixed = [&](std::size_t len) { u.sh = shape::FIXED; u.len = len; u.alpha.assign(len, {}); };
  switch (fam) {
    case 0: {  // dense range
      u.family = "dense";
      fixed(L);
      const vh::u64 base = r.chance(0.3) ? 0 : (r.chance(0.3) ? ~vh::u64{0} - want : r.next());
      for (std::size_t i = 0; i < want; ++i) u.keys.push_back(vm::u64_key(base + i));
      break;
    }
    case 1: {  // sparse
      u.family = "sparse";
      fixed(L);
      for (std::size_t i = 0; i < want; ++i) u.keys.push_back(vm::u64_key(r.next()));
      break;
    }
    case 2: {  // boundaries: 0, max and neighbours, powers of 256
      u.family = "boundary";
      fixed(L);
      for (int i = 0; i < 12; ++i) { u.keys.push_back(vm::u64_key(static_cast<vh::u64>(i))); u.keys.push_back(vm::u64_key(~vh::u64{0} - static_cast<vh::u64>(i))); }
      for (int b = 1; b < 8; ++b) for (int d = -2; d <= 2; ++d) u.keys.push_back(vm::u64_key((vh::u64{1} << (8 * b)) + static_cast<vh::u64>(d)));
      break;
    }
    case 3:
    case 4:
    case 5: {  // per-byte alphabets: nodes at chosen depths sit on size-class boundaries
      u.family = "alphabets";
      fixed(L);
      double space = 1;
      std::vector<unsigned> sizes(L, 1);
      const auto nb = 1 + r.below(3);  // number of branching positions with a "big" alphabet
      for (std::size_t i = 0; i < nb; ++i) sizes[r.below(L)] = r.pick(alpha_sizes());
      for (std::size_t i = 0; i < L; ++i) if (sizes[i] == 1 && r.chance(0.25)) sizes[i] = static_cast<unsigned>(2 + r.below(4));
      for (std::size_t i = 0; i < L; ++i) { u.alpha[i] = make_alphabet(r, sizes[i]); space *= sizes[i]; }
      draw_fixed_keys(r, u, std::max<std::size_t>(want, 60));
      break;
    }
    case 6: {  // byte strings of mixed length, zero-terminated bodies (prefix-free by the terminator)
      u.family = "terminated";
      u.sh = shape::TERM;
      std::set<bytes, vm::byte_less> ks;
      const unsigned asz = static_cast<unsigned>(2 + r.below(5));
      std::vector<unsigned char> a;
      for (unsigned i = 0; i < asz; ++i) a.push_back(static_cast<unsigned char>(1 + r.below(255)));
      std::size_t tries = 0;
      while (ks.size() < want && tries++ < want * 20) {
        bytes k;
        const auto n = r.below(8);  // body 0..7: at most 7 bytes + terminator shared past a branch
        for (std::size_t i = 0; i < n; ++i) k += static_cast<char>(r.pick(a));
        k += '\0';
        ks.insert(std::move(k));
      }
      u.keys.assign(ks.begin(), ks.end());
      break;
    }
    case 7: {  // fixed-length long keys with branch points every few bytes ("deep")
      u.family = "deep";
      const std::size_t len = static_cast<std::size_t>(r.pick(std::vector<unsigned>{9, 12, 16, 24, 40}));
      fixed(len);
      std::size_t since = 0;
      for (std::size_t i = 0; i < len; ++i) {
        const bool branch = since >= 3 + r.below(4) || i + 1 == len;
        unsigned sz = 1;
        if (branch) { sz = r.chance(0.15) ? r.pick(alpha_sizes()) : static_cast<unsigned>(2 + r.below(3)); since = 0; }
        else ++since;
        u.alpha[i] = make_alphabet(r, sz);
      }
      draw_fixed_keys(r, u, std::max<std::size_t>(want, 40));
      break;
    }
    default: {  // encoder-shaped keys: u16 then text with pad byte and 2-byte run length
      u.family = "encoder";
      u.sh = shape::ENC;
      std::set<bytes, vm::byte_less> ks;
      const unsigned a16 = static_cast<unsigned>(1 + r.below(4));
      std::size_t tries = 0;
      while (ks.size() < want && tries++ < want * 20) {
        bytes k;
        const auto hi = r.below(a16);
        k += static_cast<char>(hi >> 8);
        k += static_cast<char>(hi & 0xFF);
        const auto n = r.below(5);
        for (std::size_t i = 0; i < n; ++i) k += static_cast<char>("\x01\x02\xFF\x41"[r.below(4)]);
        k += '\0';
        const unsigned padlen = 65532U - static_cast<unsigned>(n);
        k += static_cast<char>(padlen >> 8);
        k += static_cast<char>(padlen & 0xFF);
        ks.insert(std::move(k));
      }
      u.keys.assign(ks.begin(), ks.end());
      break;
    }
  }
  // de-duplicate, shuffle order does not matter (callers pick at random)
  std::sort(u.keys.begin(), u.keys.end(), vm::byte_less{});
  u.keys.erase(std::unique(u.keys.begin(), u.keys.end()), u.keys.end());
  return u;
}

// next bytes at depth p of all keys in m that share k[0..p)
inline std::set<unsigned> siblings_at(const vm::model_map& m, const bytes& k, std::size_t p) {
  std::set<unsigned> s;
  const bytes pre = k.substr(0, p);
  for (auto it = m.lower_bound(pre); it != m.end(); ++it) {
    if (it->first.size() <= p || it->first.compare(0, p, pre) != 0) break;
    s.insert(static_cast<unsigned char>(it->first[p]));
  }
  return s;
}

// The pinned index cannot store key sets that need a compressed path longer
// than 7 bytes (known finding D4). A step is admissible iff the reference trie
// of the resulting key set has no such path (and the set stays prefix-free).
inline bool admissible_set(const std::vector<bytes>& sorted) {
  const auto t = vm::ref_trie::build(sorted, false);
  return t.prefix_free && t.max_prefix <= 7;
}
inline bool admissible_insert(const vm::model_map& m, const bytes& k) {
  if (m.count(k) != 0) return true;
  auto v = vm::sorted_keys(m);
  v.insert(std::lower_bound(v.begin(), v.end(), k, vm::byte_less{}), k);
  return admissible_set(v);
}
inline bool admissible_remove(const vm::model_map& m, const bytes& k) {
  if (m.count(k) == 0) return true;
  auto v = vm::sorted_keys(m);
  v.erase(std::lower_bound(v.begin(), v.end(), k, vm::byte_less{}));
  return admissible_set(v);
}

}  // namespace vu

#endif  // VERIF_UNIVERSE_HPP
