// Specification-side oracles shared by the engines: byte-string keys, the
// reference (path-compressed) trie that predicts node counts from a key set,
// scan slices of an ordered map, and the allocation tracker fed by the
// allocate/free hooks. Nothing here models unodb's implementation.
#ifndef VERIF_MODEL_HPP
#define VERIF_MODEL_HPP

#include <array>
#include <cstring>
#include <map>
#include <mutex>
#include <string>
#include <unordered_map>
#include <vector>

#include "common/vh.hpp"

namespace vm {

using bytes = std::string;  // keys and values as raw byte strings

struct byte_less {
  bool operator()(const bytes& a, const bytes& b) const noexcept {
    const std::size_t n = a.size() < b.size() ? a.size() : b.size();
    const int c = n == 0 ? 0 : std::memcmp(a.data(), b.data(), n);
    if (c != 0) return c < 0;
    return a.size() < b.size();
  }
};
inline int byte_cmp(const bytes& a, const bytes& b) noexcept {
  const byte_less l;
  return l(a, b) ? -1 : (l(b, a) ? 1 : 0);
}

using model_map = std::map<bytes, bytes, byte_less>;

inline bytes u64_key(std::uint64_t v) {
  bytes k(8, '\0');
  for (int i = 0; i < 8; ++i) k[static_cast<std::size_t>(i)] = static_cast<char>((v >> (56 - 8 * i)) & 0xFF);
  return k;
}
inline std::uint64_t key_u64(const bytes& k) {
  std::uint64_t v = 0;
  for (std::size_t i = 0; i < 8 && i < k.size(); ++i) v = (v << 8) | static_cast<unsigned char>(k[i]);
  return v;
}

inline bool is_proper_prefix(const bytes& a, const bytes& b) { return a.size() < b.size() && std::memcmp(a.data(), b.data(), a.size()) == 0; }

// ------------------------------------------------------------ reference trie
// The path-compressed radix tree of a prefix-free key set, computed from the
// sorted keys alone: a group of >= 2 keys that agree up to depth d forms one
// inner node whose compressed path is their longest common prefix beyond d and
// whose fan-out is the number of distinct next bytes.
struct ref_node {
  std::uint32_t depth;       // key bytes consumed before this node's compressed path
  std::uint32_t prefix_len;  // length of the compressed path
  std::uint32_t fanout;      // number of children
  std::uint32_t leaf_children;
  std::uint32_t lo, hi;      // range of sorted keys under this node
  int parent;                // index of parent node or -1
};

inline int class_of_fanout(std::uint32_t f) { return f <= 4 ? 1 : (f <= 16 ? 2 : (f <= 48 ? 3 : 4)); }  // index as unodb::node_type

struct ref_trie {
  std::array<std::uint64_t, 5> counts{};  // LEAF, I4, I16, I48, I256
  std::uint32_t max_prefix{0};
  std::uint32_t max_depth{0};
  bool prefix_free{true};
  std::vector<ref_node> nodes;

  static ref_trie build(const std::vector<bytes>& sorted_keys, bool keep_nodes = true) {
    ref_trie t;
    t.counts[0] = sorted_keys.size();
    if (sorted_keys.size() >= 2) t.rec(sorted_keys, 0, static_cast<std::uint32_t>(sorted_keys.size()), 0, -1, keep_nodes);
    return t;
  }

  // index of the node that is the direct parent of key index ki (or -1 for a lone root leaf)
  int parent_of_key(std::uint32_t ki) const {
    int best = -1;
    for (std::size_t i = 0; i < nodes.size(); ++i) {
      const auto& n = nodes[i];
      if (n.lo <= ki && ki < n.hi && (best < 0 || n.depth + n.prefix_len >= nodes[static_cast<std::size_t>(best)].depth + nodes[static_cast<std::size_t>(best)].prefix_len)) best = static_cast<int>(i);
    }
    return best;
  }

 private:
  void rec(const std::vector<bytes>& k, std::uint32_t lo, std::uint32_t hi, std::uint32_t depth, int parent, bool keep) {
    // longest common prefix of first and last key of the (sorted) group
    const bytes& a = k[lo];
    const bytes& b = k[hi - 1];
    std::uint32_t l = depth;
    const auto m = static_cast<std::uint32_t>(a.size() < b.size() ? a.size() : b.size());
    while (l < m && a[l] == b[l]) ++l;
    if (l >= m) { prefix_free = false; return; }  // one key is a prefix of another: outside the contract
    ref_node n{depth, l - depth, 0, 0, lo, hi, parent};
    if (n.prefix_len > max_prefix) max_prefix = n.prefix_len;
    if (l + 1 > max_depth) max_depth = l + 1;
    const int me = static_cast<int>(nodes.size());
    if (keep) nodes.push_back(n);
    std::uint32_t i = lo, fan = 0, leafs = 0;
    while (i < hi) {
      if (k[i].size() <= l) { prefix_free = false; return; }
      std::uint32_t j = i + 1;
      while (j < hi && k[j].size() > l && k[j][l] == k[i][l]) ++j;
      ++fan;
      if (j - i == 1) ++leafs;
      else rec(k, i, j, l + 1, keep ? me : -1, keep);
      i = j;
    }
    ++counts[static_cast<std::size_t>(class_of_fanout(fan))];
    if (keep) { nodes[static_cast<std::size_t>(me)].fanout = fan; nodes[static_cast<std::size_t>(me)].leaf_children = leafs; }
  }
};

inline std::vector<bytes> sorted_keys(const model_map& m) {
  std::vector<bytes> v;
  v.reserve(m.size());
  for (const auto& kv : m) v.push_back(kv.first);
  return v;
}

// ------------------------------------------------------------- scan oracles
using entry_list = std::vector<std::pair<bytes, bytes>>;

constexpr std::size_t no_limit = static_cast<std::size_t>(-1);

inline entry_list slice_all(const model_map& m, bool fwd, std::size_t limit = no_limit) {
  entry_list out;
  if (fwd) { for (auto it = m.begin(); it != m.end() && out.size() < limit; ++it) out.emplace_back(*it); }
  else { for (auto it = m.rbegin(); it != m.rend() && out.size() < limit; ++it) out.emplace_back(*it); }
  return out;
}
// fwd: entries >= b ascending; reverse: entries <= b descending
inline entry_list slice_from(const model_map& m, const bytes& b, bool fwd, std::size_t limit = no_limit) {
  entry_list out;
  if (fwd) {
    for (auto it = m.lower_bound(b); it != m.end() && out.size() < limit; ++it) out.emplace_back(*it);
  } else {
    auto it = m.upper_bound(b);
    while (it != m.begin() && out.size() < limit) { --it; out.emplace_back(*it); }
  }
  return out;
}
// f<t: [f,t) ascending; f>t: (t,f] descending; equal: nothing
inline entry_list slice_range(const model_map& m, const bytes& f, const bytes& t, std::size_t limit = no_limit) {
  entry_list out;
  const int c = byte_cmp(f, t);
  if (c == 0) return out;
  if (c < 0) {
    for (auto it = m.lower_bound(f); it != m.end() && byte_cmp(it->first, t) < 0 && out.size() < limit; ++it) out.emplace_back(*it);
  } else {
    auto it = m.upper_bound(f);
    while (it != m.begin() && out.size() < limit) { --it; if (byte_cmp(it->first, t) <= 0) break; out.emplace_back(*it); }
  }
  return out;
}

// --------------------------------------------------------- allocation tracker
// Fed by the allocate_aligned / free_aligned hooks. Thread-safe. Blocks the
// harness itself obtains through allocate_aligned (grown key_encoder /
// key_buffer objects) are excluded via a thread-local flag or by size class.
class alloc_tracker {
 public:
  static alloc_tracker& get() { static alloc_tracker t; return t; }
  static thread_local int ignore_depth;

  struct scoped_ignore { scoped_ignore() { ++ignore_depth; } ~scoped_ignore() { --ignore_depth; } };

  void on_alloc(void* p, std::size_t size) {
    const std::lock_guard<std::mutex> g{m};
    if (ignore_depth > 0) { ignored[p] = size; return; }
    ++allocs;
    const auto ins = live.emplace(p, size);
    if (!ins.second) ++double_alloc;  // allocator returned a block we believe live: we missed its free
    else live_bytes += size;
  }
  // returns size of the block, 0 if it was an ignored block, SIZE_MAX if unknown (double free / foreign)
  std::size_t on_dealloc(void* p) {
    const std::lock_guard<std::mutex> g{m};
    if (p == nullptr) return 0;
    const auto ig = ignored.find(p);
    if (ig != ignored.end()) { ignored.erase(ig); return 0; }
    const auto it = live.find(p);
    if (it == live.end()) { ++unknown_free; return static_cast<std::size_t>(-1); }
    const auto sz = it->second;
    live_bytes -= sz;
    live.erase(it);
    ++frees;
    return sz;
  }
  std::size_t bytes_live() { const std::lock_guard<std::mutex> g{m}; return live_bytes; }
  std::size_t blocks_live() { const std::lock_guard<std::mutex> g{m}; return live.size(); }
  // blocks allocated inside a scoped_ignore and not freed yet (scratch memory of a call must be gone when it returns)
  std::size_t ignored_live() { const std::lock_guard<std::mutex> g{m}; return ignored.size(); }
  std::unordered_map<void*, std::size_t> snapshot() { const std::lock_guard<std::mutex> g{m}; return live; }
  bool is_live(void* p) { const std::lock_guard<std::mutex> g{m}; return live.count(p) != 0; }
  // the live block containing address a, or nullptr
  void* block_containing(const void* a, std::size_t* size_out = nullptr) {
    const std::lock_guard<std::mutex> g{m};
    for (const auto& kv : live) {
      const auto* b = static_cast<const char*>(kv.first);
      if (static_cast<const char*>(a) >= b && static_cast<const char*>(a) < b + kv.second) { if (size_out != nullptr) *size_out = kv.second; return kv.first; }
    }
    return nullptr;
  }
  void reset_counts() { const std::lock_guard<std::mutex> g{m}; allocs = frees = 0; }
  std::uint64_t allocs{0}, frees{0}, unknown_free{0}, double_alloc{0};

 private:
  std::mutex m;
  std::unordered_map<void*, std::size_t> live, ignored;
  std::size_t live_bytes{0};
};
inline thread_local int alloc_tracker::ignore_depth = 0;

}  // namespace vm

#endif  // VERIF_MODEL_HPP
