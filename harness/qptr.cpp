// E7 qptr: model-based check of unodb::qsbr_ptr / unodb::qsbr_ptr_span (property C17).
//
//  (a) value semantics: N wrapper slots (std::optional<qsbr_ptr<const std::byte>>, so that
//      construction and destruction are explicit operations) are driven through
//      {ctor-from-pointer, default-ctor, copy, move, copy-assign, move-assign, ++, --, +=, -=,
//      +, -, n+p, destroy} next to a shadow model of raw pointers into two byte buffers.
//      After EVERY operation every observer (get, ->, *, [], ==, !=, <, <=, >, >=, p-q) of
//      every live wrapper / pair of live wrappers is compared with the raw pointers.
//      M qsbr_ptr_span slots (random mode) are checked against the std::span they came from.
//  (b) liveness: expected = "some live wrapper (or span start) has a non-null shadow".
//      Probe = fork(); the child calls quiescent() | qsbr_pause() | pause+resume+quiescent and
//      _exit(0)s. Killed by SIGABRT <=> rejected. Assertion builds: rejected iff expected;
//      NDEBUG builds: never rejected. The parent never calls quiescent/pause/resume itself and
//      stays single-threaded; ASan builds do not fork at all (semantic checks only).
//
//  --mode enum   case = index of an operation sequence (length 1..--len, default 3) over a
//                66-letter alphabet (22 operations per slot); sequences with a step that is
//                inapplicable in the shadow state (dead slot, null/out-of-range arithmetic,
//                self-assignment, ctor into a live slot) are skipped, counter `inapplicable`.
//                Probes after every operation with every applicable probe kind;
//                --last-only 1 probes only after the last operation (every prefix is itself
//                an enumerated case, so nothing is lost; ~3x faster).
//  --mode random case = PRNG sequence of 4..60 applicable operations incl. span operations;
//                one randomly chosen probe kind with probability --probe-rate (default 0.25)
//                after each operation.
//  --mode count  prints {"total": <#sequences of length 1..--len>} and exits.
//  Both modes: after the last step every wrapper is destroyed and one more probe is made.
//  A SIGABRT in the harness process itself (a library assertion firing inside a valid wrapper
//  operation, e.g. an unbalanced unregistration) is reported as "qptr/abort-in-operation";
//  the report is then written from the signal handler and the worker stops.
#include "global.hpp"

#include <sys/resource.h>
#include <sys/wait.h>
#include <unistd.h>

#include <algorithm>
#include <cerrno>
#include <csignal>
#include <cstddef>
#include <iterator>
#include <optional>
#include <ranges>
#include <span>
#include <string>
#include <atomic>
#include <chrono>
#include <memory>
#include <thread>
#include <vector>

#include "qsbr.hpp"
#include "qsbr_ptr.hpp"

#include "common/vh.hpp"

using vh::json;
using vh::rep;
using vh::u64;
using vh::u8;

namespace {

using qptr = unodb::qsbr_ptr<const std::byte>;
using qspan = unodb::qsbr_ptr_span<const std::byte>;
using rspan = std::span<const std::byte>;
using i8 = std::int8_t;

#ifdef NDEBUG
constexpr bool kAsserts = false;
#else
constexpr bool kAsserts = true;
#endif
#if defined(__SANITIZE_ADDRESS__)
constexpr bool kFork = false;  // fork + abort under ASan is slow and noisy: semantic checks only
#else
constexpr bool kFork = true;
#endif

constexpr int N = 3;   // qsbr_ptr slots
constexpr int M = 3;   // qsbr_ptr_span slots
constexpr int L = 16;  // bytes per buffer
static_assert(N == M);

// two buffers, separated so that b0+L is never a valid address of b1
struct buffers { std::byte b0[L]; std::byte gap[32]; std::byte b1[L]; } g_buf;
const std::byte* base(int b) noexcept { return b == 0 ? g_buf.b0 : g_buf.b1; }
const std::byte* raw(int b, int off) noexcept { return b < 0 ? nullptr : base(b) + off; }

// ------------------------------------------------------------- operations
enum kind : u8 { CTOR, DEF, COPYC, MOVEC, COPYA, MOVEA, PREINC, POSTINC, PREDEC, POSTDEC, ADDEQ, SUBEQ,
                 PLUS, NPLUS, MINUS, DESTROY, S_BUILD, S_DEF, S_COPYC, S_MOVEC, S_COPYA, S_MOVEA, S_DESTROY, KINDS };
// CTOR: src = buffer (-1: nullptr), a = offset.  ADDEQ..MINUS: a = delta.
// S_BUILD: src = buffer (-1: std::span{}), a = offset, b = length.  Others: dst / src slots.
struct op { u8 k; i8 dst, src, a, b; };

std::string str(const op& o) {
  char t[48], n[8];
  const int d = o.dst, s = o.src, a = o.a, b = o.b;
  std::snprintf(n, sizeof n, a < 0 ? "(%d)" : "%d", a);  // signed delta
  switch (o.k) {
    case CTOR: if (s < 0) std::snprintf(t, sizeof t, "p%d=ctor(null)", d); else std::snprintf(t, sizeof t, "p%d=ctor(b%d+%d)", d, s, a); break;
    case DEF: std::snprintf(t, sizeof t, "p%d=def", d); break;
    case COPYC: std::snprintf(t, sizeof t, "p%d=copy(p%d)", d, s); break;
    case MOVEC: std::snprintf(t, sizeof t, "p%d=move(p%d)", d, s); break;
    case COPYA: std::snprintf(t, sizeof t, "p%d:=p%d", d, s); break;
    case MOVEA: std::snprintf(t, sizeof t, "p%d:=move(p%d)", d, s); break;
    case PREINC: std::snprintf(t, sizeof t, "++p%d", d); break;
    case POSTINC: std::snprintf(t, sizeof t, "p%d++", d); break;
    case PREDEC: std::snprintf(t, sizeof t, "--p%d", d); break;
    case POSTDEC: std::snprintf(t, sizeof t, "p%d--", d); break;
    case ADDEQ: std::snprintf(t, sizeof t, "p%d+=%s", d, n); break;
    case SUBEQ: std::snprintf(t, sizeof t, "p%d-=%s", d, n); break;
    case PLUS: std::snprintf(t, sizeof t, "p%d+%s", d, n); break;
    case NPLUS: std::snprintf(t, sizeof t, "%s+p%d", n, d); break;
    case MINUS: std::snprintf(t, sizeof t, "p%d-%s", d, n); break;
    case DESTROY: std::snprintf(t, sizeof t, "~p%d", d); break;
    case S_BUILD: if (s < 0) std::snprintf(t, sizeof t, "s%d=span(null,0)", d); else std::snprintf(t, sizeof t, "s%d=span(b%d+%d,%d)", d, s, a, b); break;
    case S_DEF: std::snprintf(t, sizeof t, "s%d=def", d); break;
    case S_COPYC: std::snprintf(t, sizeof t, "s%d=copy(s%d)", d, s); break;
    case S_MOVEC: std::snprintf(t, sizeof t, "s%d=move(s%d)", d, s); break;
    case S_COPYA: std::snprintf(t, sizeof t, "s%d:=s%d", d, s); break;
    case S_MOVEA: std::snprintf(t, sizeof t, "s%d:=move(s%d)", d, s); break;
    default: std::snprintf(t, sizeof t, "~s%d", d); break;
  }
  return t;
}

// ----------------------------------------------------------- shadow model
struct pslot {  // a qsbr_ptr slot: dead, or live with shadow pointer base(buf)+off (buf<0: nullptr)
  bool live{false};
  i8 buf{-1}, off{0};
  bool nonnull() const noexcept { return live && buf >= 0; }
  const std::byte* ptr() const noexcept { return raw(buf, off); }
};
struct sslot {  // a qsbr_ptr_span slot; moved-from spans may only be destroyed or assigned to
  bool live{false}, moved{false};
  i8 buf{-1}, off{0}, len{0};
  rspan span() const noexcept { return buf < 0 ? rspan{} : rspan{base(buf) + off, static_cast<std::size_t>(len)}; }
};
struct shadow {
  pslot p[N];
  sslot s[M];
  // the expected liveness verdict
  bool live_nonnull() const noexcept {
    for (const auto& x : p) if (x.nonnull()) return true;
    for (const auto& x : s) if (x.live && !x.moved && x.buf >= 0) return true;
    return false;
  }
};

// signed offset a pointer operation applies to its operand
int delta_of(const op& o) noexcept {
  switch (o.k) {
    case PREINC: case POSTINC: return 1;
    case PREDEC: case POSTDEC: return -1;
    case ADDEQ: case PLUS: case NPLUS: return o.a;
    default: return -o.a;  // SUBEQ, MINUS
  }
}

// Apply [o] to the shadow state; false (state untouched) when [o] is inapplicable.
bool step(shadow& st, const op& o) noexcept {
  switch (o.k) {
    case CTOR: case DEF: {
      auto& d = st.p[o.dst];
      if (d.live) return false;
      const bool null = o.k == DEF || o.src < 0;
      d = pslot{true, static_cast<i8>(null ? -1 : o.src), static_cast<i8>(null ? 0 : o.a)};
      return true;
    }
    case COPYC: case MOVEC: case COPYA: case MOVEA: {
      if (o.dst == o.src) return false;
      auto& d = st.p[o.dst];
      auto& s = st.p[o.src];
      if (!s.live || d.live != (o.k == COPYA || o.k == MOVEA)) return false;
      d = s;
      if (o.k == MOVEC || o.k == MOVEA) { s.buf = -1; s.off = 0; }
      return true;
    }
    case PREINC: case POSTINC: case PREDEC: case POSTDEC: case ADDEQ: case SUBEQ: case PLUS: case NPLUS: case MINUS: {
      auto& d = st.p[o.dst];
      const int n = d.off + delta_of(o);
      if (!d.nonnull() || n < 0 || n > L) return false;
      if (o.k <= SUBEQ) d.off = static_cast<i8>(n);
      return true;
    }
    case DESTROY:
      if (!st.p[o.dst].live) return false;
      st.p[o.dst] = pslot{};
      return true;
    case S_BUILD: case S_DEF: {
      auto& d = st.s[o.dst];
      if (d.live) return false;
      if (o.k == S_DEF || o.src < 0) d = sslot{true, false, -1, 0, 0};
      else d = sslot{true, false, o.src, o.a, o.b};
      return true;
    }
    case S_COPYC: case S_MOVEC: case S_COPYA: case S_MOVEA: {
      if (o.dst == o.src) return false;
      auto& d = st.s[o.dst];
      auto& s = st.s[o.src];
      if (!s.live || s.moved || d.live != (o.k == S_COPYA || o.k == S_MOVEA)) return false;
      d = s;
      if (o.k == S_MOVEC || o.k == S_MOVEA) s.moved = true;
      return true;
    }
    default:  // S_DESTROY
      if (!st.s[o.dst].live) return false;
      st.s[o.dst] = sslot{};
      return true;
  }
}

// ------------------------------------------------------ evidence counters
enum cnt { C_SEQ, C_OPS, C_PROBES, C_REJ, C_ACC, C_PQ, C_PP, C_PR, C_SPAN, C_CMP, C_INAPP, C_COUNT };
const char* const kCntName[C_COUNT] = {"sequences", "ops", "probes", "probes_rejected", "probes_accepted", "probe_quiescent",
                                       "probe_pause", "probe_resume", "span_checks", "comparisons", "inapplicable"};
u64 g_cnt[C_COUNT];
bool g_finished = false;
void finish_report() {
  for (int i = 0; i < C_COUNT; ++i) rep().count(kCntName[i], g_cnt[i]);
  rep().note("assertions_enabled", kAsserts);
  rep().note("fork_probes", kFork);
  g_finished = true;
  rep().finish();
  std::fflush(stdout);
}

// ------------------------------------------------------------ fork probe
enum probe_kind { PK_QUIESCENT, PK_PAUSE, PK_RESUME };
const char* const kProbeName[] = {"quiescent", "pause", "resume"};
enum outcome { ACCEPTED, REJECTED, ABNORMAL, NOFORK };  // NOFORK: the probe could not be made
int g_devnull = -1;

outcome fork_probe(probe_kind k) {
  const pid_t pid = ::fork();
  if (pid < 0) return NOFORK;
  if (pid == 0) {
    ::signal(SIGABRT, SIG_DFL);
    if (g_devnull >= 0) ::dup2(g_devnull, 2);  // silence the assertion message + stack trace
    const struct rlimit nocore{0, 0};
    ::setrlimit(RLIMIT_CORE, &nocore);
    try {
      auto& t = unodb::this_thread();
      if (k == PK_QUIESCENT) t.quiescent();
      else if (k == PK_PAUSE) t.qsbr_pause();
      else { t.qsbr_pause(); t.qsbr_resume(); t.quiescent(); }
    } catch (...) { ::_exit(3); }
    ::_exit(0);
  }
  int status = 0;
  while (::waitpid(pid, &status, 0) < 0) if (errno != EINTR) return NOFORK;
  if (WIFSIGNALED(status)) return WTERMSIG(status) == SIGABRT ? REJECTED : ABNORMAL;
  return WIFEXITED(status) && WEXITSTATUS(status) == 0 ? ACCEPTED : ABNORMAL;
}

// ---------------------------------------------------------------- runner
struct runner {
  std::vector<op> ops;
  const char* mode;
  bool enum_mode, last_only;
  double probe_rate;
  vh::rng prng;  // probe decisions only (separate stream from the sequence generator)

  shadow st;
  std::optional<qptr> w[N];
  std::optional<qspan> s[M];
  std::size_t step_i{0};
  bool failed{false}, nontriv{false};
  u64 probes{0};

  runner(std::vector<op> o, const char* m, bool last, double rate, u64 probe_seed)
      : ops(std::move(o)), mode(m), enum_mode(std::string(m) == "enum"), last_only(last), probe_rate(rate), prng(probe_seed) {}

  json ops_json() const { json j = json::array(); for (const auto& o : ops) j.push(str(o)); return j; }
  u64 hash() const { return vh::hash_bytes(ops.data(), ops.size() * sizeof(op), ops.size()); }

  void fail(const char* key, const std::string& what, const char* probe = "none") {
    failed = true;
    json wj = json::object();
    wj.set("mode", mode).set("ops", ops_json()).set("step", static_cast<u64>(step_i)).set("probe", probe);
    wj.set("step_op", step_i < ops.size() ? str(ops[step_i]) : std::string("teardown"));
    wj.set("assertions_enabled", kAsserts).set("expected_live", st.live_nonnull());
    rep().violation("C17", key, what, std::move(wj));
  }

  // an inconsistency of the harness itself is never reported as a violation of the library
  void harness_bug(const char* what) { failed = true; rep().inconclusive(std::string("harness bug: ") + what); }

  // value of a temporary produced by an operator vs. the raw pointer result
  void temp(const qptr& t, const std::byte* expect, const char* which) {
    if (t.get() != expect) fail("qptr/semantics/arith-temp", std::string("temporary of ") + which + " differs from raw pointer result");
  }
  void retref(const qptr& r, const qptr& self, const char* which) {
    if (&r != &self) fail("qptr/semantics/return-ref", std::string(which) + " does not return *this");
  }

  // Perform [o] on the real objects. [pre] is the shadow state before the operation.
  void exec(const op& o, const shadow& pre) {
    const auto d = static_cast<std::ptrdiff_t>(o.a);
    const std::byte* const old = o.k >= PREINC && o.k <= MINUS ? pre.p[o.dst].ptr() : nullptr;
    switch (o.k) {
      case CTOR: w[o.dst].emplace(raw(o.src, o.a)); break;
      case DEF: w[o.dst].emplace(); break;
      case COPYC: w[o.dst].emplace(*w[o.src]); break;
      case MOVEC: w[o.dst].emplace(std::move(*w[o.src])); break;
      case COPYA: retref(*w[o.dst] = *w[o.src], *w[o.dst], "copy assignment"); break;
      case MOVEA: retref(*w[o.dst] = std::move(*w[o.src]), *w[o.dst], "move assignment"); break;
      case PREINC: retref(++*w[o.dst], *w[o.dst], "pre-increment"); break;
      case PREDEC: retref(--*w[o.dst], *w[o.dst], "pre-decrement"); break;
      case ADDEQ: retref(*w[o.dst] += d, *w[o.dst], "operator+="); break;
      case SUBEQ: retref(*w[o.dst] -= d, *w[o.dst], "operator-="); break;
      // the temporaries below die at the end of their case block, i.e. before any probe
      case POSTINC: { const qptr t = (*w[o.dst])++; temp(t, old, "post-increment"); break; }
      case POSTDEC: { const qptr t = (*w[o.dst])--; temp(t, old, "post-decrement"); break; }
      case PLUS: { const qptr t = *w[o.dst] + d; temp(t, old + d, "p + n"); break; }
      case NPLUS: { const qptr t = d + *w[o.dst]; temp(t, old + d, "n + p"); break; }
      case MINUS: { const qptr t = *w[o.dst] - d; temp(t, old - d, "p - n"); break; }
      case DESTROY: w[o.dst].reset(); break;
      case S_BUILD: { const rspan sp = st.s[o.dst].span(); s[o.dst].emplace(sp); break; }
      case S_DEF: s[o.dst].emplace(); break;
      case S_COPYC: s[o.dst].emplace(*s[o.src]); break;
      case S_MOVEC: s[o.dst].emplace(std::move(*s[o.src])); break;
      case S_COPYA: *s[o.dst] = *s[o.src]; break;
      case S_MOVEA: *s[o.dst] = std::move(*s[o.src]); break;
      default: s[o.dst].reset(); break;
    }
  }

  // Every observer of every live wrapper / pair of live wrappers vs. the shadow.
  void check_ptrs() {
    for (int i = 0; i < N; ++i) {
      if (st.p[i].live != w[i].has_value()) { harness_bug("slot liveness out of sync"); return; }
      if (!st.p[i].live) continue;
      const qptr& a = *w[i];
      const std::byte* const pa = st.p[i].ptr();
      if (a.get() != pa) { fail("qptr/semantics/get", "get() of slot " + std::to_string(i) + " differs from the raw pointer"); return; }
      if (a.operator->() != pa) { fail("qptr/semantics/deref", "operator-> differs from the raw pointer"); return; }
      if (st.p[i].buf >= 0 && st.p[i].off < L) {  // dereferenceable in the shadow
        const int off = st.p[i].off;
        const bool ok = &*a == pa && *a == *pa && &a[0] == pa && &a[-off] == pa - off && a[-off] == pa[-off] &&
                        &a[L - 1 - off] == pa + (L - 1 - off) && a[L - 1 - off] == pa[L - 1 - off];
        if (!ok) { fail("qptr/semantics/deref", "operator* / operator[] of slot " + std::to_string(i) + " differ from the raw pointer"); return; }
      }
      for (int j = 0; j < N; ++j) {
        if (!st.p[j].live) continue;
        const qptr& b = *w[j];
        const std::byte* const pb = st.p[j].ptr();
        g_cnt[C_CMP] += 2;
        if ((a == b) != (pa == pb) || (a != b) != (pa != pb)) { fail("qptr/semantics/compare", "== / != differ from raw pointers"); return; }
        if (st.p[i].buf < 0 || st.p[i].buf != st.p[j].buf) continue;  // ordering / difference: same buffer only
        g_cnt[C_CMP] += 5;
        if ((a < b) != (pa < pb) || (a <= b) != (pa <= pb) || (a > b) != (pa > pb) || (a >= b) != (pa >= pb)) {
          fail("qptr/semantics/compare", "relational operators differ from raw pointers");
          return;
        }
        if (a - b != pa - pb) { fail("qptr/semantics/difference", "a - b differs from raw pointer difference"); return; }
      }
    }
  }

  void check_spans() {
    for (int j = 0; j < M; ++j) {
      if (st.s[j].live != s[j].has_value()) { harness_bug("span slot liveness out of sync"); return; }
      if (!st.s[j].live || st.s[j].moved) continue;
      const qspan& q = *s[j];
      const rspan ref = st.s[j].span();
      ++g_cnt[C_SPAN];
      if (q.size() != ref.size() || std::ranges::size(q) != ref.size()) { fail("qptr/span/size", "size() differs from the std::span"); return; }
      if (q.begin().get() != ref.data() || q.end().get() != ref.data() + ref.size() || q.end() - q.begin() != static_cast<std::ptrdiff_t>(ref.size())) {
        fail("qptr/span/elements", "begin() / end() do not delimit the std::span's elements");
        return;
      }
      std::size_t n = 0;
      bool ok = true;
      for (auto it = q.begin(); it != q.end(); ++it, ++n)
        if (n >= ref.size() || &*it != &ref[n] || *it != ref[n]) { ok = false; break; }
      // (begin/end verified above, so the range algorithms cannot run off the buffer)
      ok = ok && n == ref.size() && std::ranges::equal(q, ref) && static_cast<std::size_t>(std::ranges::distance(q)) == ref.size() &&
           std::ranges::data(q) == ref.data() && std::ranges::empty(q) == ref.empty();
      if (ok && !ref.empty()) ok = std::ranges::find(q, ref.back()).get() == &*std::ranges::find(ref, ref.back());
      if (!ok) { fail("qptr/span/elements", "element sequence differs from the std::span"); return; }
    }
  }

  void probe(probe_kind k) {
    const bool live = st.live_nonnull();
    const outcome r = fork_probe(k);
    if (r == NOFORK) { rep().inconclusive("fork/waitpid failed, probe skipped"); return; }
    ++probes;
    ++g_cnt[C_PROBES];
    ++g_cnt[k == PK_QUIESCENT ? C_PQ : (k == PK_PAUSE ? C_PP : C_PR)];
    if (live) nontriv = true;
    const char* pn = kProbeName[k];
    if (r == ABNORMAL) { fail("qptr/liveness/probe-abnormal", "probe child neither exited 0 nor aborted", pn); return; }
    ++g_cnt[r == REJECTED ? C_REJ : C_ACC];
    if (r == REJECTED && !kAsserts) fail("qptr/liveness/rejected-in-ndebug", std::string(pn) + " aborted in an NDEBUG build", pn);
    else if (r == REJECTED && !live) fail("qptr/liveness/rejected-without-live-wrapper", std::string(pn) + " rejected although no non-null wrapper is alive", pn);
    else if (r == ACCEPTED && kAsserts && live) fail("qptr/liveness/accepted-with-live-wrapper", std::string(pn) + " accepted although a non-null wrapper is alive", pn);
  }

  // Probe point after a step. The resume probe pauses first, so it is only sound when no
  // non-null wrapper is alive (accepted direction only).
  void probe_point(bool last) {
    const bool live = st.live_nonnull();
    if (!kFork) { if (live) nontriv = true; return; }
    if (enum_mode) {
      if (last_only && !last) return;
      probe(PK_QUIESCENT);
      if (!failed) probe(PK_PAUSE);
      if (!failed && !live) probe(PK_RESUME);
    } else if (prng.chance(probe_rate)) {
      probe(static_cast<probe_kind>(prng.below(live ? 2 : 3)));
    }
  }

  void run();
};

runner* g_run = nullptr;

void runner::run() {
  g_run = this;
  for (step_i = 0; step_i < ops.size() && !failed; ++step_i) {
    const shadow pre = st;
    if (!step(st, ops[step_i])) { harness_bug("inapplicable operation reached the executor"); break; }
    exec(ops[step_i], pre);
    ++g_cnt[C_OPS];
    if (!failed) check_ptrs();
    if (!failed) check_spans();
    if (!failed) probe_point(step_i + 1 == ops.size());
  }
  // teardown: destroy every wrapper, then the thread must be allowed to go quiescent
  const bool had_objects = std::ranges::any_of(st.p, &pslot::live) || std::ranges::any_of(st.s, &sslot::live);
  step_i = ops.size();
  for (auto& x : w) x.reset();
  for (auto& x : s) x.reset();
  st = shadow{};
  if (!failed && kFork && (had_objects || !enum_mode)) probe(enum_mode ? PK_QUIESCENT : static_cast<probe_kind>(prng.below(3)));
  g_run = nullptr;
  rep().evaluation();
  ++g_cnt[C_SEQ];
  if (nontriv) rep().nontrivial(hash());
  if ((nontriv && ops.size() >= 3) || rep().verbose) {
    json j = json::object();
    j.set("mode", mode).set("case", rep().cur_case).set("ops", ops_json()).set("probes", probes).set("violated", failed);
    rep().sample(std::move(j), 3);
  }
}

// An abort in the harness process itself: with a sound harness this is a library assertion
// firing inside a valid wrapper operation (e.g. unregistering a pointer that was never
// registered). abort() is raised synchronously, outside malloc, so reporting from here works.
void on_abort(int) {
  if (!g_finished) {
    if (g_run != nullptr) g_run->fail("qptr/abort-in-operation", "SIGABRT (library assertion) inside a valid wrapper operation in the harness process");
    else rep().violation("C17", "qptr/abort-outside-sequence", "SIGABRT in the harness process outside any sequence (e.g. registered pointers left at thread exit)");
    rep().note("aborted_early", true);
    finish_report();
  }
  ::_exit(0);
}

// ------------------------------------------------------------ generators
// enum alphabet: 22 operations per slot
std::vector<op> alphabet() {
  std::vector<op> a;
  for (i8 d = 0; d < N; ++d) {
    a.push_back({CTOR, d, 0, 0, 0});   // b0+0
    a.push_back({CTOR, d, 0, L, 0});   // b0+L (one past the end)
    a.push_back({CTOR, d, 1, 1, 0});   // b1+1
    a.push_back({DEF, d, 0, 0, 0});
    for (i8 s = 0; s < N; ++s)
      if (s != d) for (const u8 k : {COPYC, MOVEC, COPYA, MOVEA}) a.push_back({k, d, s, 0, 0});
    for (const u8 k : {PREINC, POSTINC, PREDEC, POSTDEC}) a.push_back({k, d, 0, 0, 0});
    a.push_back({ADDEQ, d, 0, 2, 0});
    a.push_back({SUBEQ, d, 0, 2, 0});
    a.push_back({PLUS, d, 0, 1, 0});
    a.push_back({NPLUS, d, 0, 2, 0});
    a.push_back({MINUS, d, 0, 1, 0});
    a.push_back({DESTROY, d, 0, 0, 0});
  }
  return a;
}

u64 total_sequences(u64 asize, u64 maxlen) {
  u64 t = 0, p = 1;
  for (u64 l = 1; l <= maxlen; ++l) { p *= asize; t += p; }
  return t;
}

// case index -> sequence. The index is first scattered over [0, total) by a multiplicative
// bijection (prime multiplier not dividing total), then read as: all sequences of length 1,
// then length 2, ...; within a length a base-|A| number (least significant digit = first
// operation). Applicable sequences are rare (0.2-2 %: they must start with a constructor, ...)
// and clustered in the plain numbering; scattering makes contiguous worker ranges balanced.
u64 scatter_multiplier(u64 total) {
  for (const u64 k : {1000003ULL, 1000033ULL, 1000037ULL}) if (total % k != 0) return k;  // primes
  return 1;
}
bool decode(u64 c, u64 maxlen, u64 total, const std::vector<op>& a, std::vector<op>& out) {
  if (c >= total) return false;
  c = static_cast<u64>(static_cast<unsigned __int128>(c) * scatter_multiplier(total) % total);
  u64 p = a.size(), l = 1;
  while (l < maxlen && c >= p) { c -= p; p *= a.size(); ++l; }
  out.resize(l);
  for (u64 i = 0; i < l; ++i) { out[i] = a[c % a.size()]; c /= a.size(); }
  return true;
}

// random sequence of 4..60 applicable operations
std::vector<op> generate(vh::rng& r) {
  const u64 n = r.range(4, 60);
  std::vector<op> out;
  shadow st;
  // relative frequency of each kind (non-null constructions favoured over null ones)
  static constexpr u8 weight[KINDS] = {4, 1, 2, 2, 2, 2, 1, 1, 1, 1, 1, 1, 1, 1, 1, 2, 3, 1, 1, 1, 1, 1, 1};
  static const std::vector<u8> lut = [] {
    std::vector<u8> v;
    for (u8 k = 0; k < KINDS; ++k) v.insert(v.end(), weight[k], k);
    return v;
  }();
  for (u64 attempt = 0; out.size() < n && attempt < n * 40; ++attempt) {
    op o{r.pick(lut), static_cast<i8>(r.below(N)), static_cast<i8>(r.below(N)), 0, 0};
    if (o.k == CTOR || o.k == S_BUILD) {
      o.src = r.chance(0.125) ? static_cast<i8>(-1) : static_cast<i8>(r.below(2));
      o.a = static_cast<i8>(r.below(L + 1));
      if (o.k == S_BUILD) o.b = static_cast<i8>(r.below(static_cast<u64>(L - o.a) + 1));
    } else if (o.k >= ADDEQ && o.k <= MINUS) {
      o.a = static_cast<i8>(static_cast<int>(r.below(9)) - 4);
    }
    if (step(st, o)) out.push_back(o);
  }
  return out;
}

}  // namespace

int main(int argc, char** argv) {
  const vh::args a(argc, argv);
  const auto mode = a.str("mode", "enum");
  const u64 maxlen = std::min<u64>(a.num("len", 3), 9);
  const auto alpha = alphabet();
  const u64 total = total_sequences(alpha.size(), maxlen);
  if (mode == "count") {
    std::printf("{\"total\": %llu, \"alphabet\": %zu, \"len\": %llu}\n", static_cast<unsigned long long>(total), alpha.size(),
                static_cast<unsigned long long>(maxlen));
    return 0;
  }
  if (mode != "enum" && mode != "random") { std::fprintf(stderr, "unknown --mode %s\n", mode.c_str()); return 3; }
  rep().init(a, "qptr");
  for (int i = 0; i < L; ++i) { g_buf.b0[i] = static_cast<std::byte>(i + 1); g_buf.b1[i] = static_cast<std::byte>(0xA0 + i); }
  g_devnull = ::open("/dev/null", O_WRONLY | O_CLOEXEC);
  ::signal(SIGABRT, on_abort);
  const bool is_enum = mode == "enum";
  const bool last_only = a.num("last-only", 0) != 0;
  const double rate = a.dbl("probe-rate", 0.25);
  // --companion 1: a second QSBR-registered thread that never passes a quiescent state, and one quiescent state of this
  // thread up front: the global epoch cannot advance, so every probed quiescent state is this thread's 2nd, 3rd, ... in
  // the same epoch (a liveness check that only runs on the first one per epoch would go unnoticed otherwise). The
  // forked probe children contain only the probing thread; QSBR's state word still counts both.
  std::atomic<int> comp_phase{0};
  std::unique_ptr<unodb::qsbr_thread> comp;
  if (a.num("companion", 0) != 0) {
    comp = std::make_unique<unodb::qsbr_thread>([&comp_phase] { comp_phase.store(1); while (comp_phase.load() != 2) std::this_thread::sleep_for(std::chrono::milliseconds(1)); });
    while (comp_phase.load() != 1) std::this_thread::yield();
    unodb::this_thread().quiescent();
    rep().note("companion_thread", true);
  }
  const vh::case_range cr(a);
  std::vector<op> seq;
  for (u64 c = cr.begin; c < cr.end; ++c) {
    if (is_enum) {
      if (!decode(c, maxlen, total, alpha, seq)) break;  // past the last sequence
      shadow st;  // cheap shadow-only applicability pre-pass: nothing of the library is touched
      if (!std::ranges::all_of(seq, [&st](const op& o) { return step(st, o); })) { ++g_cnt[C_INAPP]; continue; }
    } else {
      vh::rng r(vh::case_seed(rep().seed, c, 0xC17));
      seq = generate(r);
    }
    rep().progress_case(c, mode.c_str());
    runner run(seq, is_enum ? "enum" : "random", last_only, rate, vh::case_seed(rep().seed, c, 0xC18));
    run.run();
    if (rep().violations_for("C17") >= 12) break;  // registration state may be corrupt from here on
  }
  if (comp) { comp_phase.store(2); comp->join(); rep().count("sequences_with_companion_thread", g_cnt[C_SEQ]); }
  rep().note("alphabet", static_cast<u64>(alpha.size()));
  if (is_enum) rep().note("enum_total", total);
  finish_report();
  return 0;
}
