// E6 cfgdiff: one seeded workload, compiled in many build configurations
// ({AVX2,SSE4.1} x {stats,no stats} x {assertions,NDEBUG} x {PAUSE,EMPTY}); the
// driver compares the hashes this program prints. No hooks, no model: the
// oracle is agreement between configurations (and a clean exit of the
// assertion-enabled ones).
//   trace hash   every return value, every get's bytes, every scan's delivered
//                (key,value) sequence; per case and over the whole range
//   stats hash   (statistics builds) node counts, growth/shrink/prefix-split
//                counters and memory use after every operation
// Workload per case: a history on one of {db, mutex_db, olc_db} x {uint64,
// key_view <= 8 bytes} incl. scans with fall-off bounds and - on olc_db - scans
// followed by removals that free the scanned inner nodes; plus a multi-threaded
// olc_db section in which 4 threads work on disjoint key ranges below a shared
// root node (results are schedule-independent, spin loops and restarts really run).
#include "global.hpp"

#include <atomic>
#include <string>
#include <thread>
#include <vector>

#include "art.hpp"
#include "mutex_art.hpp"
#include "olc_art.hpp"
#include "qsbr.hpp"

#include "common/model.hpp"
#include "common/universe.hpp"
#include "common/vh.hpp"

using vh::json;
using vh::rep;
using vh::u64;
using vm::bytes;

namespace {

template <class K> struct keyconv;
template <> struct keyconv<std::uint64_t> { static std::uint64_t to(const bytes& b) { return vm::key_u64(b); } static constexpr const char* name = "u64"; };
template <> struct keyconv<unodb::key_view> { static unodb::key_view to(const bytes& b) { return {reinterpret_cast<const std::byte*>(b.data()), b.size()}; } static constexpr const char* name = "key_view"; };
inline unodb::value_view vv(const bytes& v) { return {reinterpret_cast<const std::byte*>(v.data()), v.size()}; }
inline void barrier() { asm volatile("" ::: "memory"); }

template <class View>
bytes copy_view(const View& v) {
  if constexpr (requires { v.data(); }) return bytes(reinterpret_cast<const char*>(v.data()), v.size());
  else { const std::size_t n = v.size(); if (n == 0) return bytes(); return bytes(reinterpret_cast<const char*>(v.begin().get()), n); }
}

template <class Db> struct dbinfo;
template <class K> struct dbinfo<unodb::db<K, unodb::value_view>> { static constexpr int cls = 0; using key = K; };
template <class K> struct dbinfo<unodb::mutex_db<K, unodb::value_view>> { static constexpr int cls = 1; using key = K; };
template <class K> struct dbinfo<unodb::olc_db<K, unodb::value_view>> { static constexpr int cls = 2; using key = K; };

struct hashes { u64 trace{0x7ACE}, stats{0x57A7}; };

template <class Db>
std::optional<bytes> do_get(Db& db, const bytes& k) {
  using K = typename dbinfo<Db>::key;
  barrier();
  if constexpr (dbinfo<Db>::cls == 1) {
    auto r = db.get(keyconv<K>::to(k));
    barrier();
    if (!r.first.has_value()) return std::nullopt;
    return copy_view(*r.first);
  } else {
    auto r = db.get(keyconv<K>::to(k));
    barrier();
    if (!r.has_value()) return std::nullopt;
    return copy_view(*r);
  }
}

template <class Db>
void fold_stats(Db& db, hashes& h) {
#ifdef UNODB_DETAIL_WITH_STATS
  for (const auto v : db.get_node_counts()) h.stats = vh::hash_combine(h.stats, v);
  for (const auto v : db.get_growing_inode_counts()) h.stats = vh::hash_combine(h.stats, v);
  for (const auto v : db.get_shrinking_inode_counts()) h.stats = vh::hash_combine(h.stats, v);
  h.stats = vh::hash_combine(h.stats, db.get_key_prefix_splits());
  // memory use depends on sizeof(node), which legitimately differs between assertion and
  // NDEBUG builds (debug lock fields) and AVX2/SSE (padding): fold node-size independent data only
#else
  (void)db;
  (void)h;
#endif
}

template <class Db>
void fold_scan(Db& db, hashes& h, int api, bool fwd, const bytes& a, const bytes& b, std::size_t halt) {
  using K = typename dbinfo<Db>::key;
  std::size_t n = 0;
  auto fn = [&](const auto& v) {
    const auto kv = v.get_key();
    h.trace = vh::hash_combine(h.trace, vh::hash_bytes(kv.data(), kv.size()));
    h.trace = vh::hash_combine(h.trace, vh::hash_str(copy_view(v.get_value())));
    ++n;
    return n >= halt;
  };
  barrier();
  if (api == 0) db.scan(fn, fwd);
  else if (api == 1) db.scan_from(keyconv<K>::to(a), fn, fwd);
  else db.scan_range(keyconv<K>::to(a), keyconv<K>::to(b), fn);
  barrier();
  h.trace = vh::hash_combine(h.trace, n);
}

bytes bound_near(vh::rng& r, const vu::universe& uni, const vm::model_map& model) {
  if (model.empty() || r.chance(0.2)) return r.pick(uni.keys);
  auto it = model.lower_bound(r.pick(uni.keys));
  if (it == model.end()) it = model.begin();
  const bytes k = it->first;
  if (r.chance(0.3)) return k;
  const auto mp = uni.mutable_positions(k);
  for (int tries = 0; tries < 6 && mp > 0; ++tries) {
    const auto p = r.below(mp);
    const auto sib = vu::siblings_at(model, k, p);
    bytes out;
    if (!sib.empty() && uni.falloff(r, k, p, sib, out)) return out;
  }
  return k;
}

template <class Db>
void history(vh::rng& r, hashes& h, const vh::args& a) {
  using K = typename dbinfo<Db>::key;
  constexpr bool bytestring = std::is_same_v<K, unodb::key_view>;
  vu::universe uni;
  // byte-string keys of at most 8 bytes (as the property states): the 8-byte families and short terminated strings
  for (int tries = 0; tries < 50; ++tries) {
    uni = vu::make_universe(r, bytestring, r.chance(0.15) ? 200 + r.below(600) : 8 + r.below(120));
    bool ok = true;
    for (const auto& k : uni.keys) if (k.size() > 8) ok = false;
    if (ok && !uni.keys.empty()) break;
  }
  // 1 case in 16: a node filled with all 256 children (the 8-bit child counter wraps there), kept near the 255/256 boundary
  const bool full256 = r.chance(1.0 / 16);
  if (full256) {
    uni = vu::universe{};
    uni.u64 = !bytestring;
    uni.family = "full256";
    uni.sh = vu::shape::FIXED;
    uni.len = 8;
    uni.alpha.assign(8, {});
    const bytes base = vm::u64_key(r.next());
    const auto pos = r.below(8);
    for (std::size_t i = 0; i < 8; ++i) uni.alpha[i].push_back(static_cast<unsigned char>(base[i]));
    uni.alpha[pos].clear();
    for (unsigned v = 0; v < 256; ++v) { bytes k = base; k[pos] = static_cast<char>(v); uni.keys.push_back(k); uni.alpha[pos].push_back(static_cast<unsigned char>(v)); }
  }
  vm::model_map model;  // used only to steer the workload (present/absent picks, bounds, D4 admissibility)
  Db db;
  const u64 nops = full256 ? 1100 : a.num("ops", 250) * (uni.keys.size() > 300 ? 3 : 1);
  u64 vcount = 0;
  for (u64 op = 0; op < nops; ++op) {
    const auto x = r.below(100);
    const int phase = static_cast<int>((op * 3) / nops);  // fill, churn, drain
    int w_ins = phase == 0 ? 60 : (phase == 1 ? 36 : 12), w_rem = phase == 0 ? 8 : (phase == 1 ? 36 : 58);
    if (full256) {  // fill to the brim, hover at the 255/256 boundary, refill so that the destructor meets the full node
      const bool closing = op + 320 >= nops;
      if (op < 420 || closing) { w_ins = 93; w_rem = closing ? 0 : 2; }
      else { w_ins = 45; w_rem = 20; }
    }
    if (x < static_cast<u64>(w_ins)) {
      bytes k = r.pick(uni.keys);
      if (full256 && model.count(k) != 0) { for (const auto& c : uni.keys) if (model.count(c) == 0) { k = c; break; } }
      if (bytestring && !vu::admissible_insert(model, k)) continue;
      bytes v(r.below(12), '\0');
      const auto id = ++vcount;
      for (std::size_t i = 0; i < v.size(); ++i) v[i] = static_cast<char>(id >> (8 * (i % 8)));
      barrier();
      const bool res = db.insert(keyconv<K>::to(k), vv(v));
      barrier();
      h.trace = vh::hash_combine(h.trace, 0x100 + (res ? 1 : 0));
      if (res) model.emplace(k, v);
    } else if (x < static_cast<u64>(w_ins + w_rem)) {
      bytes k = r.pick(uni.keys);
      if (!model.empty() && r.chance(0.8)) { auto it = model.lower_bound(k); if (it == model.end()) it = model.begin(); k = it->first; }
      if (bytestring && !vu::admissible_remove(model, k)) continue;
      barrier();
      const bool res = db.remove(keyconv<K>::to(k));
      barrier();
      h.trace = vh::hash_combine(h.trace, 0x200 + (res ? 1 : 0));
      if (res) model.erase(k);
    } else if (x < 90) {
      const bytes k = r.pick(uni.keys);
      const auto g = do_get(db, k);
      h.trace = vh::hash_combine(h.trace, g.has_value() ? vh::hash_str(*g, 0x300) : 0x301);
    } else if (x < 92) {
      h.trace = vh::hash_combine(h.trace, 0x400 + (db.empty() ? 1 : 0));
    } else {
      const int api = static_cast<int>(r.below(3));
      const bool fwd = r.chance(0.5);
      bytes b1 = bound_near(r, uni, model), b2 = bound_near(r, uni, model);
      if (bytestring && r.chance(0.25)) {  // bounds that are proper prefixes / extensions of the keys
        if (r.chance(0.6) && !b1.empty()) b1.resize(r.below(b1.size())); else b1 += static_cast<char>(r.below(256));
        if (r.chance(0.5) && !b2.empty()) b2.resize(r.below(b2.size()));
      }
      const std::size_t halt = r.chance(0.6) ? 1 + r.below(8) : static_cast<std::size_t>(-1);
      fold_scan(db, h, api, fwd, b1, b2, halt);
      if constexpr (dbinfo<Db>::cls == 2) {
        // scans followed by removals that free the scanned inner nodes
        if (r.chance(0.5)) {
          for (int i = 0; i < 6 && !model.empty(); ++i) {
            auto it = model.lower_bound(b1);
            if (it == model.end()) it = model.begin();
            const bytes k = it->first;
            if (bytestring && !vu::admissible_remove(model, k)) break;
            const bool res = db.remove(keyconv<K>::to(k));
            h.trace = vh::hash_combine(h.trace, 0x500 + (res ? 1 : 0));
            if (res) model.erase(k);
          }
        }
        if (r.chance(0.1)) unodb::this_thread().quiescent();
      }
    }
    fold_stats(db, h);
    if (r.chance(full256 && model.size() == uni.keys.size() && op + 320 < nops ? 0.02 : 0.002)) { db.clear(); model.clear(); h.trace = vh::hash_combine(h.trace, 0x600); }
    if (full256 && model.size() == uni.keys.size()) rep().count("steps_on_completely_full_I256");
  }
  if (full256 && model.size() == uni.keys.size()) rep().count("destroyed_with_completely_full_I256");
  // final content
  fold_scan(db, h, 0, true, bytes(), bytes(), static_cast<std::size_t>(-1));
  fold_scan(db, h, 0, false, bytes(), bytes(), static_cast<std::size_t>(-1));
}

// 4 threads, disjoint key ranges under one shared root inode; every thread's results depend
// only on its own operations, so the folded result is schedule-independent.
void multithreaded(vh::rng& r, hashes& h, const vh::args& a) {
  using Db = unodb::olc_db<std::uint64_t, unodb::value_view>;
  constexpr int NT = 4;
  Db db;
  const bytes anchor_val = "anchor";
  for (int t = 0; t < NT; ++t) (void)db.insert(static_cast<u64>(t) << 56, vv(anchor_val));
  const u64 nops = a.num("mtops", 1500);
  const u64 seed = r.next();
  u64 results[NT] = {};
  std::atomic<int> ready{0};
  unodb::this_thread().qsbr_pause();
  {
    std::vector<unodb::qsbr_thread> ths;
    for (int t = 0; t < NT; ++t)
      ths.emplace_back([&, t] {
        vh::rng tr(vh::hash_combine(seed, static_cast<u64>(t)));
        u64 acc = 0x1000 + static_cast<u64>(t);
        ready.fetch_add(1);
        while (ready.load() < NT) std::this_thread::yield();
        const u64 base = static_cast<u64>(t) << 56;
        if (a.num("only-mt", 0) == 2) {
          // churn: build a node of 2 / 5 / 17 children under this thread's own branch and take it down again, over and over -
          // every thread creates, grows, shrinks and dissolves nodes of the same classes at the same time as the others
          for (u64 i = 0; i < nops;) {
            const u64 m = tr.below(3) == 0 ? 17 : (tr.below(2) == 0 ? 5 : 2);
            bytes v(8, 'c');
            for (u64 j = 1; j <= m; ++j, ++i) acc = vh::hash_combine(acc, db.insert(base + j, vv(v)) ? 1 : 2);
            for (u64 j = m; j >= 1; --j, ++i) acc = vh::hash_combine(acc, db.remove(base + j) ? 3 : 4);
            if (tr.chance(0.2)) unodb::this_thread().quiescent();
          }
          results[t] = acc;
          return;
        }
        for (u64 i = 0; i < nops; ++i) {
          // keys 1..255 in two layouts: dense low byte, and spread over a middle byte (different node classes / depths)
          const u64 kk = tr.below(2) == 0 ? base + 1 + tr.below(60) : base + ((1 + tr.below(40)) << 24);
          const auto x = tr.below(100);
          if (x < 45) {
            u64 vid = (static_cast<u64>(t) << 40) | i;
            bytes v(8, '\0');
            std::memcpy(v.data(), &vid, 8);
            acc = vh::hash_combine(acc, db.insert(kk, vv(v)) ? 1 : 2);
          } else if (x < 80) {
            acc = vh::hash_combine(acc, db.remove(kk) ? 3 : 4);
          } else if (x < 97) {
            barrier();
            const auto g = db.get(kk);
            barrier();
            acc = vh::hash_combine(acc, g.has_value() ? vh::hash_str(copy_view(*g), 5) : 6);
          } else {
            // scan of the thread's own range
            u64 n = 0, sh = 7;
            db.scan_range(base, base + (u64{1} << 56) - 1, [&](const auto& v) { const auto kv = v.get_key(); sh = vh::hash_combine(sh, vh::hash_bytes(kv.data(), kv.size())); ++n; return false; });
            acc = vh::hash_combine(acc, vh::hash_combine(sh, n));
          }
          if (tr.chance(0.05)) unodb::this_thread().quiescent();
        }
        results[t] = acc;
      });
    for (auto& t : ths) t.join();
  }
  unodb::this_thread().qsbr_resume();
  unodb::this_thread().quiescent();
  unodb::this_thread().quiescent();
  for (const u64 x : results) h.trace = vh::hash_combine(h.trace, x);
#ifdef UNODB_DETAIL_WITH_STATS
  {
    // C10, truly parallel part: the growth / shrink counters must account for exactly the inner nodes that exist
    // (a counter update lost between two threads that grow or shrink nodes of one class at the same time breaks this)
    const auto counts = db.get_node_counts();
    const auto g = db.get_growing_inode_counts();
    const auto sh = db.get_shrinking_inode_counts();
    static const char* cn[] = {"LEAF", "I4", "I16", "I48", "I256"};
    for (std::size_t c = 0; c < 4; ++c) {
      const long long expect = static_cast<long long>(g[c]) - static_cast<long long>(sh[c]) - (c < 3 ? static_cast<long long>(g[c + 1]) - static_cast<long long>(sh[c + 1]) : 0);
      if (expect != static_cast<long long>(counts[c + 1]))
        rep().violation("C10", std::string("cfgdiff/parallel/growth-shrink-conservation/") + cn[c + 1],
                        "after a parallel phase the growth/shrink counters do not account for the inner nodes that exist (an update was lost, or a counter moved without a structural event)",
                        json::object().set("class", cn[c + 1]).set("nodes", counts[c + 1]).set("implied_by_counters", expect));
    }
    rep().count("parallel_conservation_checks");
    rep().count("parallel_structural_events", g[0] + g[1] + g[2] + g[3] + sh[0] + sh[1] + sh[2] + sh[3]);
  }
#endif
  fold_scan(db, h, 0, true, bytes(), bytes(), static_cast<std::size_t>(-1));
  fold_stats(db, h);
}

}  // namespace

int main(int argc, char** argv) {
  const vh::args a(argc, argv);
  rep().init(a, "cfgdiff");
  const vh::case_range cr(a);
  using V = unodb::value_view;
  hashes total;
  json per_case = json::array();
  for (u64 c = cr.begin; c < cr.end; ++c) {
    rep().progress_case(c, "cfgdiff");
    vh::rng r(vh::case_seed(rep().seed, c, 0xCF6));
    hashes h;
    switch (a.num("only-mt", 0) != 0 ? 6 : c % 7) {
      case 0: history<unodb::db<std::uint64_t, V>>(r, h, a); break;
      case 1: history<unodb::db<unodb::key_view, V>>(r, h, a); break;
      case 2: history<unodb::mutex_db<std::uint64_t, V>>(r, h, a); break;
      case 3: history<unodb::mutex_db<unodb::key_view, V>>(r, h, a); break;
      case 4: history<unodb::olc_db<std::uint64_t, V>>(r, h, a); break;
      case 5: history<unodb::olc_db<unodb::key_view, V>>(r, h, a); break;
      default:
        if (a.num("no-mt", 0) != 0) history<unodb::olc_db<std::uint64_t, V>>(r, h, a);  // memcheck runs: no concurrent optimistic readers
        else multithreaded(r, h, a);
        break;
    }
    rep().evaluation();
    total.trace = vh::hash_combine(total.trace, h.trace);
    total.stats = vh::hash_combine(total.stats, h.stats);
    per_case.push(json::array().push(c).push(vh::hex64(h.trace)).push(vh::hex64(h.stats)));
    if (rep().verbose) std::fprintf(stderr, "case %llu trace=%s stats=%s\n", static_cast<unsigned long long>(c), vh::hex64(h.trace).c_str(), vh::hex64(h.stats).c_str());
  }
  rep().note("trace_hash", vh::hex64(total.trace));
  rep().note("first_case", cr.begin);
#ifdef UNODB_DETAIL_WITH_STATS
  rep().note("stats_hash", vh::hex64(total.stats));
#endif
  rep().note("per_case", per_case);
#ifdef NDEBUG
  rep().note("assertions", false);
#else
  rep().note("assertions", true);
#endif
  rep().finish();
  return 0;
}
