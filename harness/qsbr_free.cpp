// qsbr_free: free-running RCU-style stress of the real QSBR (C05, C06), meant to run under
// ThreadSanitizer and AddressSanitizer. The serialized scheduler of qsbr_conc explores interleavings
// under sequential consistency; it cannot see a missing acquire/release edge. Here plain (non-atomic)
// reads of an object by a reader and the plain write + free of the reclaimer are ordered only by what
// QSBR itself synchronises, so a weakened memory order in QSBR shows up as a TSan data race, and a
// premature free as an ASan use-after-free / a dead canary.
//
// World of one round: a few slots, each an atomic pointer to a live object (allocate_aligned memory).
//   READ     p = slot.load(acquire); check canary; keep p until the thread's next quiescent state / pause
//   USE      re-read every kept pointer (canary + id must be unchanged)
//   REPLACE  publish a fresh object with exchange(acq_rel), hand the old one to on_next_epoch_deallocate
//   QUIESCENT / PAUSE+RESUME   drop all kept pointers first (the documented precondition)
//   SPAWN    start another qsbr_thread running the same kind of script (bounded), EXIT ends a thread early
// Oracles: dealloc hook - exactly one free per retired object, none for a live one; the hook poisons the
// canary with a plain write (so TSan sees reader/reclaimer conflicts, and readers see DEAD in any build);
// at the end of a round (all threads joined, main thread quiescent 3x) every retired object is freed, the
// thread count is 1 and all request lists are empty.
#include "global.hpp"

#include <algorithm>
#include <atomic>
#include <chrono>
#include <cstring>
#include <memory>
#include <thread>
#include <vector>

#include "heap.hpp"
#include "qsbr.hpp"
#include "verif_hooks.hpp"

#include "common/vh.hpp"

using vh::json;
using vh::rep;
using vh::u64;

namespace {

constexpr u64 MAGIC = 0x600DF00D600DF00DULL;
constexpr u64 DEAD = 0xDEADDEADDEADDEADULL;
constexpr int MAX_OBJS = 4096;
constexpr int MAX_SLOTS = 4;

struct obj {
  u64 canary;
  u64 id;
  u64 payload[2];
};

struct world {
  std::atomic<obj*> slot[MAX_SLOTS];
  int nslots{2};
  std::atomic<u64> next_id{0};
  std::atomic<std::uint8_t> retired[MAX_OBJS];
  std::atomic<std::uint8_t> freed[MAX_OBJS];
  std::atomic<int> spawn_budget{0};
  std::atomic<int> started{0}, go{0};
  std::atomic<u64> reads{0}, uses{0}, replaces{0}, quiescents{0}, pauses{0}, spawns{0}, exits_with_pending{0}, frees_by_other_thread{0}, frees_seen{0};
  std::atomic<bool> bad{false};
};

world* W = nullptr;
thread_local int tl_thread_tag = 0;
thread_local bool tl_direct_free = false;

void violate(const char* prop, const std::string& key, const std::string& what, json w = json::object()) {
  if (W != nullptr) W->bad.store(true);
  rep().violation(prop, "qsbr_free/" + key, what, std::move(w));
}

// every free_aligned of this process goes through here (the harness allocates nothing else with allocate_aligned)
void dealloc_cb(void* pv) noexcept {
  if (W == nullptr || pv == nullptr) return;
  auto* p = static_cast<obj*>(pv);
  const u64 id = p->id;  // plain read: ordered after every reader's access only by QSBR's own synchronisation
  if (id >= MAX_OBJS) {
    violate("C06", "free/unknown-block", "a block that is not a live harness object was freed (already freed and overwritten, or corrupted)", json::object().set("id_field", id));
    return;
  }
  if (!tl_direct_free && W->retired[id].load() == 0)
    violate("C05", "free/never-retired", "QSBR freed an object that was never handed to deferred deallocation", json::object().set("object", id));
  if (W->freed[id].fetch_add(1) != 0)
    violate("C06", "free/twice", "an object was freed twice", json::object().set("object", id));
  if (!tl_direct_free) {
    W->frees_seen.fetch_add(1, std::memory_order_relaxed);
    if (p->payload[0] != static_cast<u64>(tl_thread_tag)) W->frees_by_other_thread.fetch_add(1, std::memory_order_relaxed);
  }
  p->canary = DEAD;  // plain write: a reader still entitled to the object would race with it / see it
}

obj* new_obj() {
  const u64 id = W->next_id.fetch_add(1);
  if (id >= MAX_OBJS) return nullptr;
  auto* p = static_cast<obj*>(unodb::detail::allocate_aligned(sizeof(obj)));
  p->canary = MAGIC;
  p->id = id;
  p->payload[0] = 0;
  p->payload[1] = id * 31;
  return p;
}

void retire(obj* p) {
  p->payload[0] = static_cast<u64>(tl_thread_tag);  // who retired it (written before the request; readers never look at it)
  W->retired[p->id].store(1);
  unodb::this_thread().on_next_epoch_deallocate(p
#ifdef UNODB_DETAIL_WITH_STATS
                                                ,
                                                sizeof(obj)
#endif
#ifndef NDEBUG
                                                    ,
                                                nullptr
#endif
  );
}

inline void perturb(vh::rng& r) {
  const auto x = r.below(100);
  if (x < 55) return;
  if (x < 85) { for (u64 i = r.below(200); i > 0; --i) asm volatile("pause" ::: "memory"); return; }
  if (x < 98) { std::this_thread::yield(); return; }
  std::this_thread::sleep_for(std::chrono::microseconds(r.below(60)));
}

struct script {
  u64 seed;
  int steps;
  int depth;
};

void check_ref(const obj* p, u64 id, const char* where) {
  const u64 c = p->canary;  // plain reads
  const u64 i = p->id;
  if (c != MAGIC || i != id)
    violate("C05", "use/object-reclaimed", "an object was reclaimed (poisoned or reused) while a thread that took a reference before the retire had not yet passed a quiescent state",
            json::object().set("where", where).set("object", id).set("canary", vh::hex64(c)).set("id_now", i));
}

void actor(script sc, int tag);

void run_actor(script sc, int tag, bool wait_for_go) {
  tl_thread_tag = tag;
  vh::rng r(sc.seed);
  std::vector<std::pair<obj*, u64>> held;
  std::vector<std::unique_ptr<unodb::qsbr_thread>> children;
  if (wait_for_go) {
    W->started.fetch_add(1);
    while (W->go.load(std::memory_order_acquire) == 0) std::this_thread::yield();
  }
  bool pending = false;
  for (int s = 0; s < sc.steps && !W->bad.load(std::memory_order_relaxed); ++s) {
    perturb(r);
    const auto x = r.below(100);
    if (x < 30) {  // READ
      obj* p = W->slot[r.below(static_cast<u64>(W->nslots))].load(std::memory_order_acquire);
      check_ref(p, p->id, "read");
      if (held.size() < 8) held.emplace_back(p, p->id);
      W->reads.fetch_add(1, std::memory_order_relaxed);
    } else if (x < 50) {  // USE
      for (const auto& h : held) check_ref(h.first, h.second, "use");
      W->uses.fetch_add(held.size(), std::memory_order_relaxed);
    } else if (x < 72) {  // REPLACE
      obj* fresh = new_obj();
      if (fresh == nullptr) continue;
      obj* old = W->slot[r.below(static_cast<u64>(W->nslots))].exchange(fresh, std::memory_order_acq_rel);
      for (const auto& h : held) if (h.first != old) check_ref(h.first, h.second, "use-before-retire");
      held.erase(std::remove_if(held.begin(), held.end(), [&](const auto& h) { return h.first == old; }), held.end());
      retire(old);
      pending = true;
      W->replaces.fetch_add(1, std::memory_order_relaxed);
    } else if (x < 90) {  // QUIESCENT
      for (const auto& h : held) check_ref(h.first, h.second, "use-before-quiescent");
      held.clear();
      unodb::this_thread().quiescent();
      W->quiescents.fetch_add(1, std::memory_order_relaxed);
    } else if (x < 95) {  // PAUSE + RESUME
      for (const auto& h : held) check_ref(h.first, h.second, "use-before-pause");
      held.clear();
      unodb::this_thread().qsbr_pause();
      pending = false;
      perturb(r);
      unodb::this_thread().qsbr_resume();
      W->pauses.fetch_add(1, std::memory_order_relaxed);
    } else if (x < 98) {  // SPAWN
      if (sc.depth < 2 && W->spawn_budget.fetch_sub(1) > 0) {
        const script child{r.next(), 10 + static_cast<int>(r.below(60)), sc.depth + 1};
        const int ctag = tag * 16 + static_cast<int>(children.size()) + 1;
        children.push_back(std::make_unique<unodb::qsbr_thread>([child, ctag] { run_actor(child, ctag, false); }));
        W->spawns.fetch_add(1, std::memory_order_relaxed);
      }
    } else {  // EXIT early (requests still pending become orphans)
      break;
    }
  }
  for (const auto& h : held) check_ref(h.first, h.second, "use-before-exit");
  held.clear();
  if (pending) W->exits_with_pending.fetch_add(1, std::memory_order_relaxed);
  // children are joined while this thread is still registered and idle: it must not block them forever,
  // so keep passing through quiescent states while waiting? No: join() blocks. Pause first - a paused
  // thread is not waited for.
  if (!children.empty()) {
    unodb::this_thread().qsbr_pause();
    for (auto& c : children) c->join();
    unodb::this_thread().qsbr_resume();
  }
}

void round(u64 case_index) {
  vh::rng r(vh::case_seed(rep().seed, case_index, 0x9F5B));
  world w;
  W = &w;
  for (auto& a : w.retired) a.store(0);
  for (auto& a : w.freed) a.store(0);
  w.nslots = 1 + static_cast<int>(r.below(MAX_SLOTS));
  for (int i = 0; i < w.nslots; ++i) w.slot[i].store(new_obj());
  const int nthreads = 2 + static_cast<int>(r.below(5));
  w.spawn_budget.store(static_cast<int>(r.below(4)));
  tl_thread_tag = 1;
  // the main thread takes part as an actor too (it is registered); the others start behind a barrier
  std::vector<std::unique_ptr<unodb::qsbr_thread>> ths;
  unodb::this_thread().qsbr_pause();
  for (int t = 0; t < nthreads; ++t) {
    const script sc{r.next(), 20 + static_cast<int>(r.below(120)), 0};
    ths.push_back(std::make_unique<unodb::qsbr_thread>([sc, t] { run_actor(sc, 2 + t, true); }));
  }
  while (w.started.load() < nthreads) std::this_thread::yield();
  unodb::this_thread().qsbr_resume();
  w.go.store(1, std::memory_order_release);
  const bool main_acts = r.chance(0.5);
  if (main_acts) run_actor(script{r.next(), 20 + static_cast<int>(r.below(80)), 3}, 1, false);
  // joining: a registered thread that blocks would stall reclamation but not correctness; pause while waiting
  unodb::this_thread().qsbr_pause();
  for (auto& t : ths) t->join();
  unodb::this_thread().qsbr_resume();
  // drain: only this thread is registered now
  for (int i = 0; i < 3; ++i) unodb::this_thread().quiescent();
  const auto st = unodb::qsbr::instance().get_state();
  if (unodb::qsbr_state::get_thread_count(st) != 1)
    violate("C06", "end/thread-count", "after every other thread exited the registered-thread count is not 1", json::object().set("reported", static_cast<u64>(unodb::qsbr_state::get_thread_count(st))));
  if (!unodb::qsbr::instance().previous_interval_orphaned_requests_empty() || !unodb::qsbr::instance().current_interval_orphaned_requests_empty() ||
      !unodb::this_thread().previous_interval_requests_empty() || !unodb::this_thread().current_interval_requests_empty())
    violate("C06", "end/requests-pending", "requests still pending after all but one thread unregistered and the remaining thread passed three quiescent states");
  const u64 n = std::min<u64>(w.next_id.load(), MAX_OBJS);
  u64 retired = 0;
  for (u64 id = 0; id < n; ++id) {
    const auto rt = w.retired[id].load();
    const auto fr = w.freed[id].load();
    retired += rt;
    if (rt != 0 && fr != 1)
      violate("C06", fr == 0 ? "end/never-freed" : "end/freed-more-than-once", "a retired object was not freed exactly once by the end of the round", json::object().set("object", id).set("frees", static_cast<u64>(fr)));
    if (rt == 0 && fr != 0)
      violate("C05", "end/live-object-freed", "an object still published in a slot was freed", json::object().set("object", id));
  }
  // the objects still published are ours to free
  tl_direct_free = true;
  for (int i = 0; i < w.nslots; ++i) unodb::detail::free_aligned(w.slot[i].load());
  tl_direct_free = false;
  W = nullptr;
  rep().evaluation(w.reads.load() + w.uses.load() + w.replaces.load());
  rep().count("rounds");
  rep().count("reads", w.reads.load());
  rep().count("uses_of_held_references", w.uses.load());
  rep().count("retires", retired);
  rep().count("quiescent_states", w.quiescents.load());
  rep().count("pause_resume", w.pauses.load());
  rep().count("threads_spawned_mid_round", w.spawns.load());
  rep().count("exits_with_requests_pending", w.exits_with_pending.load());
  rep().count("frees_by_qsbr", w.frees_seen.load());
  rep().count("frees_executed_by_another_thread_than_the_requester", w.frees_by_other_thread.load());
  if (retired > 0 && w.uses.load() > 0)
    rep().nontrivial(vh::hash_combine(vh::hash_combine(case_index, rep().seed), vh::hash_combine(retired, w.uses.load() * 131 + w.reads.load())));
}

}  // namespace

int main(int argc, char** argv) {
  const vh::args a(argc, argv);
  rep().init(a, "qsbr_free");
  unodb::verif::on_dealloc.store(dealloc_cb);
  const vh::case_range cr(a);
  for (u64 c = cr.begin; c < cr.end; ++c) {
    rep().progress_case(c, "qsbr_free");
    round(c);
    if (rep().violations_so_far() != 0) {  // QSBR's global state may be broken now: continue in a fresh process
      if (c + 1 < cr.end) rep().set_resume(c + 1);
      rep().finish();
      std::_Exit(0);
    }
  }
  unodb::verif::on_dealloc.store(nullptr);
  rep().finish();
  return 0;
}
