// E2 olc_conc: real QSBR threads run real olc_db operations under the
// serialized scheduler (mode sched) or freely with perturbation (mode free).
// Oracles, all evaluated at the client boundary or at quiescent points:
//   C03  per-key linearizability of get/insert/remove histories (unique values)
//   C09  scans: strict order + interval membership of the delivered sequence; every
//        key's delivered value / absence consistent with some moment of the scan
//        (pseudo-get checked against the key's point-operation history)
//   C04  hold-set monitor on free notifications, held views re-read before the
//        holder's quiescent state, allocation/reachability conservation after drain
//        (ASan build: every real access)
//   C14  scheduler deadlock/livelock verdicts + post-execution single-thread sweep
//   C10  (concurrent part) node statistics vs. reference trie of the final key set
// A case = one program (structural family + thread programs); per case a set of
// executions: exhaustive depth-1 sweep for small programs, PCT / random walks otherwise.
#include "global.hpp"

#include <csignal>
#include <memory>
#include <set>
#include <sstream>
#include <thread>
#include <vector>

#include "olc_art.hpp"
#include "qsbr.hpp"

#include "common/lincheck.hpp"
#include "common/model.hpp"
#include "common/sched.hpp"
#include "common/universe.hpp"
#include "common/vh.hpp"

using vh::json;
using vh::rep;
using vh::u64;
using vm::bytes;

namespace {

std::string g_prop = "C03";
u64 g_case = 0;
std::string g_exec_desc, g_phase = "setup";
bool g_free_mode = false;

template <class K> struct keyconv;
template <> struct keyconv<std::uint64_t> { static std::uint64_t to(const bytes& b) { return vm::key_u64(b); } static constexpr const char* name = "u64"; };
template <> struct keyconv<unodb::key_view> { static unodb::key_view to(const bytes& b) { return {reinterpret_cast<const std::byte*>(b.data()), b.size()}; } static constexpr const char* name = "key_view"; };

inline void barrier() { asm volatile("" ::: "memory"); }

// ------------------------------------------------------------------ programs
enum opk { OP_GET, OP_INSERT, OP_REMOVE, OP_SCAN, OP_SCAN_FROM, OP_SCAN_RANGE, OP_QUIESCENT };

struct pop {
  int kind{OP_GET};
  int key{0}, key2{0};  // indices into program::universe
  bool fwd{true};
  int halt_after{-1};
  bool quiesce_after{false};
  int cut{-1}, cut2{-1};  // scan bounds of byte-string programs: keep only this many leading bytes (-1 = the whole key)
};
inline bytes cut_bound(const bytes& k, int cut) { return cut < 0 || static_cast<std::size_t>(cut) >= k.size() ? k : k.substr(0, static_cast<std::size_t>(cut)); }

struct program {
  std::string family, keykind;
  std::vector<bytes> all_keys;       // every key that can ever be present (initial + universe), sorted
  std::vector<bytes> universe;       // keys the operations use
  std::map<bytes, u64, vm::byte_less> initial;  // key -> value id
  std::vector<std::vector<pop>> threads;
  json to_json() const {
    static const char* names[] = {"get", "insert", "remove", "scan", "scan_from", "scan_range", "quiescent"};
    json t = json::array();
    for (const auto& th : threads) {
      json ops = json::array();
      for (const auto& o : th) {
        json j = json::object().set("op", names[o.kind]);
        if (o.kind <= OP_REMOVE || o.kind >= OP_SCAN_FROM) if (o.kind != OP_QUIESCENT) j.set("key", vh::hex(universe[static_cast<std::size_t>(o.key)]));
        if (o.kind == OP_SCAN_RANGE) j.set("to", vh::hex(universe[static_cast<std::size_t>(o.key2)]));
        if (o.cut >= 0) j.set("from_cut_to_bytes", o.cut);
        if (o.cut2 >= 0) j.set("to_cut_to_bytes", o.cut2);
        if (o.kind >= OP_SCAN && o.kind <= OP_SCAN_RANGE) { j.set("fwd", o.fwd); if (o.halt_after >= 0) j.set("halt_after", o.halt_after); }
        if (o.quiesce_after) j.set("then", "quiescent");
        ops.push(j);
      }
      t.push(ops);
    }
    json init = json::array();
    std::size_t n = 0;
    for (const auto& kv : initial) { if (n++ >= 60) break; init.push(vh::hex(kv.first)); }
    return json::object().set("family", family).set("key_kind", keykind).set("initial_keys", init).set("initial_count", static_cast<u64>(initial.size())).set("threads", t);
  }
};

// Structural families: a "hot" node with a chosen fan-out at a chosen depth, optionally
// under a two-child top node (collapse with prefix prepend onto the hot node) and with one
// deeper child; operation keys sit on the transitions (grow at capacity, shrink at minimum,
// collapse, prefix split / merge, root replacement).
program make_program(vh::rng& r, bool small, const vh::args& a, bool byte_string_keys = false) {
  program p;
  const auto famsel = r.below(100);
  // uint64 keys are their 8 big-endian bytes; byte-string keys get a per-program fixed length of 5..14 bytes
  // (equal lengths keep the set prefix-free). All branching positions lie in the first 8 bytes, so any two keys
  // differ within their first 8 bytes and EVERY subset of the key universe - whatever the interleaving leaves in
  // the tree - needs compressed paths of at most 7 bytes (the D4-free domain); the bytes beyond are payload.
  const std::size_t Lfull = byte_string_keys ? 5 + r.below(10) : 8;
  const std::size_t L = std::min<std::size_t>(Lfull, 8);  // position space
  bytes B(Lfull, '\0');
  for (auto& c : B) c = static_cast<char>(r.below(256));
  std::set<bytes, vm::byte_less> init, uni;
  std::vector<std::pair<int, bytes>> structural;  // writer operations that restructure nodes
  std::vector<bytes> read_targets;                // keys whose lookups pass through the restructured nodes
  auto with = [](bytes k, std::size_t pos, unsigned v) { k[pos] = static_cast<char>(v); return k; };
  if (famsel < 8) {
    p.family = "root";
    const auto n = r.below(3);  // empty / single leaf / two leaves
    bytes k1 = B, k2 = with(B, r.below(L), static_cast<unsigned char>(B[0]) ^ 0x55U), k3 = with(B, L - 1, static_cast<unsigned char>(B[L - 1]) ^ 1U);
    if (n >= 1) init.insert(k1);
    if (n >= 2) init.insert(k2);
    uni = {k1, k2, k3};
    structural = {{OP_INSERT, k1}, {OP_INSERT, k2}, {OP_REMOVE, k1}, {OP_REMOVE, k2}, {OP_INSERT, k3}};
    read_targets = {k1, k2};
  } else {
    static const unsigned fans[] = {2, 2, 3, 4, 4, 5, 5, 16, 17, 48, 49};
    const unsigned f = fans[r.below(small && !r.chance(0.25) ? 7 : 11)];
    const std::size_t p0 = r.below(std::min<std::size_t>(4, L - 3)), p1 = std::min(L - 1, p0 + 1 + r.below(3));
    const std::size_t p2 = p1 < L - 1 ? p1 + 1 + r.below(std::min<std::size_t>(7, L - 1 - p1)) : L - 1;
    const int top = static_cast<int>(r.below(3));  // 0: hot node is the root; 1: one sibling leaf; 2: two sibling leaves
    const bool deep = p1 < L - 1 && r.chance(0.6);
    p.family = "hot" + std::to_string(f) + (top == 0 ? "-root" : (top == 1 ? "-under-I4x2" : "-under-I4x3")) + (deep ? "-deep" : "");
    bytes Z = B;
    for (std::size_t i = p1 + 1; i < L; ++i) Z[i] = 0;
    std::vector<unsigned> hv;
    std::set<unsigned> used;
    while (hv.size() < f) { const unsigned v = static_cast<unsigned>(r.below(256)); if (used.insert(v).second) hv.push_back(v); }
    std::vector<bytes> hot;
    for (const unsigned v : hv) hot.push_back(with(Z, p1, v));
    for (const auto& k : hot) init.insert(k);
    // universe: a few hot leaves, absent hot bytes
    for (int i = 0; i < 3 && i < static_cast<int>(hot.size()); ++i) { const auto& hk = hot[1 + r.below(hot.size() - 1)]; uni.insert(hk); structural.emplace_back(OP_REMOVE, hk); read_targets.push_back(hk); }
    for (int i = 0; i < 2; ++i) { unsigned v; do v = static_cast<unsigned>(r.below(256)); while (used.count(v) != 0); used.insert(v); uni.insert(with(Z, p1, v)); structural.emplace_back(OP_INSERT, with(Z, p1, v)); }
    if (deep) {
      // the first hot child becomes an inner node with two leaves
      const bytes d1 = with(hot[0], p2, 0x11), d2 = with(hot[0], p2, 0x77), d3 = with(hot[0], p2, 0xEE);
      init.erase(hot[0]);
      init.insert(d1);
      init.insert(d2);
      uni.erase(hot[0]);
      uni.insert(d1);
      uni.insert(d2);
      uni.insert(d3);
      structural.emplace_back(OP_REMOVE, d1);
      structural.emplace_back(OP_INSERT, d3);
      read_targets.push_back(d1);
      read_targets.push_back(d2);
      read_targets.push_back(d2);
    }
    if (top >= 1) {
      const bytes s1 = with(B, p0, static_cast<unsigned char>(B[p0]) ^ 0x80U);
      init.insert(s1);
      uni.insert(s1);
      for (int i = 0; i < (top == 1 ? 3 : 1); ++i) structural.emplace_back(OP_REMOVE, s1);  // top == 1: collapse with prefix prepend onto the hot node
      if (top == 2) { const bytes s2 = with(B, p0, static_cast<unsigned char>(B[p0]) ^ 0x40U); init.insert(s2); uni.insert(s2); }
      uni.insert(with(B, p0, static_cast<unsigned char>(B[p0]) ^ 0x20U));  // absent top sibling
      structural.emplace_back(OP_INSERT, with(B, p0, static_cast<unsigned char>(B[p0]) ^ 0x20U));
    }
    bytes split;
    if (p1 - p0 >= 2) split = with(Z, p0 + 1, static_cast<unsigned char>(Z[p0 + 1]) ^ 0x33U);  // diverges inside the hot node's prefix
    else if (p0 > 0) split = with(Z, p0 - 1, static_cast<unsigned char>(Z[p0 - 1]) ^ 0x33U);
    if (!split.empty()) { uni.insert(split); structural.emplace_back(OP_INSERT, split); structural.emplace_back(OP_INSERT, split); }
  }
  u64 vid = 1000;
  for (const auto& k : init) p.initial[k] = vid++;
  p.universe.assign(uni.begin(), uni.end());
  std::set<bytes, vm::byte_less> all = init;
  for (const auto& k : uni) all.insert(k);
  p.all_keys.assign(all.begin(), all.end());
  // thread programs
  const bool scans = a.num("scans", 1) != 0;
  const int nt = small ? 2 + (r.chance(0.25) ? 1 : 0) : 2 + static_cast<int>(r.below(3));
  const double scan_w = g_prop == "C09" ? 0.45 : (scans ? 0.12 : 0.0);
  for (int t = 0; t < nt; ++t) {
    std::vector<pop> ops;
    const auto n = small ? 1 : 1 + r.below(4);
    for (u64 i = 0; i < n; ++i) {
      pop o;
      const auto nu = p.universe.size();
      auto index_of = [&](const bytes& k) { return static_cast<int>(std::lower_bound(p.universe.begin(), p.universe.end(), k, vm::byte_less{}) - p.universe.begin()); };
      o.key = static_cast<int>(r.below(nu));
      o.key2 = static_cast<int>(r.below(nu));
      const bool want_scan = r.chance(scan_w) || (g_prop == "C09" && t == 0 && i == 0);
      if (!structural.empty() && !want_scan && ((t == (g_prop == "C09" ? 1 : 0) && i == 0 && r.chance(0.85)) || r.chance(0.3))) {
        // a writer operation that restructures a node
        const auto& so = structural[r.below(structural.size())];
        o.kind = so.first;
        o.key = index_of(so.second);
      } else if (want_scan) {
        o.kind = OP_SCAN + static_cast<int>(r.below(3));
        o.fwd = r.chance(0.5);
        if (r.chance(0.3)) o.halt_after = 1 + static_cast<int>(r.below(4));
        if (!read_targets.empty() && r.chance(0.5)) o.key = index_of(read_targets[r.below(read_targets.size())]);
        if (byte_string_keys && r.chance(0.25)) {  // a bound that is a proper prefix of the keys
          if (r.chance(0.7)) o.cut = static_cast<int>(r.below(Lfull));
          if (o.kind == OP_SCAN_RANGE && r.chance(0.6)) o.cut2 = static_cast<int>(r.below(Lfull));
        }
      } else {
        const auto x = r.below(100);
        o.kind = x < 40 ? OP_GET : (x < 70 ? OP_INSERT : OP_REMOVE);
        if (o.kind == OP_GET && !read_targets.empty() && r.chance(0.7)) o.key = index_of(read_targets[r.below(read_targets.size())]);
      }
      o.quiesce_after = r.chance(0.35);
      ops.push_back(o);
    }
    p.threads.push_back(ops);
  }
  return p;
}

// ------------------------------------------------------------------ recording
struct scan_delivery { bytes key; u64 value; u64 stamp; };

struct rec {
  int thread{0};
  pop op;
  u64 call{0}, ret{vl::PENDING};
  bool ok{false};
  u64 value{0};
  std::vector<scan_delivery> deliveries;
  bool halted{false};
};

struct hold { int thread; const std::byte* p; std::size_t n; bytes copy; bytes key; };

struct exec_state {
  std::vector<std::vector<rec>> recs;  // per thread (no sharing in free mode)
  std::vector<std::vector<hold>> holds;  // per thread
  u64 frees_deferred{0}, frees_during_run{0}, retired_with_other_threads{0};
  bool overlap_on_key{false}, scan_overlaps_write{false};
  bool violated{false};
  std::string vprop, vkey, vwhat;
  json vwitness;
};

exec_state* X = nullptr;
const program* P = nullptr;
std::atomic<u64> g_free_clock{0};
thread_local int tl_thread = -1;  // program thread index of the calling thread (-1 = main)

u64 stamp() { return g_free_mode ? g_free_clock.fetch_add(1, std::memory_order_seq_cst) + 1 : vs::S().stamp(); }

std::mutex g_vmutex;
void violate(const std::string& prop, const std::string& key, const std::string& what, json w = json::object()) {
  const std::lock_guard<std::mutex> g{g_vmutex};
  if (X == nullptr || X->violated) return;
  X->violated = true;
  X->vprop = prop;
  X->vkey = key;
  X->vwhat = what;
  X->vwitness = std::move(w);
}

u64 value_id(const std::byte* p, std::size_t n) {
  u64 v = 0;
  if (n >= 8) std::memcpy(&v, p, 8);
  return v;
}
bytes value_bytes(u64 id) { bytes v(8 + id % 5, '\0'); std::memcpy(v.data(), &id, 8); for (std::size_t i = 8; i < v.size(); ++i) v[i] = static_cast<char>(id * 7 + i); return v; }

// ------------------------------------------------------------------ alloc hooks
std::atomic<bool> g_track_frees{false};
void alloc_cb(void* p, std::size_t n) noexcept { vm::alloc_tracker::get().on_alloc(p, n); }
void dealloc_cb(void* p) noexcept {
  const auto sz = vm::alloc_tracker::get().on_dealloc(p);
  if (!g_track_frees.load(std::memory_order_relaxed) || X == nullptr || sz == 0 || sz == static_cast<std::size_t>(-1)) return;
  ++X->frees_during_run;
  if (g_free_mode) return;  // hold sets are per-thread and unsynchronised in free mode; ASan/TSan watch there
  const auto* b = static_cast<const std::byte*>(p);
  for (std::size_t t = 0; t < X->holds.size(); ++t) {
    if (static_cast<int>(t) == tl_thread) continue;
    for (const auto& h : X->holds[t]) {
      if (h.n != 0 && h.p >= b && h.p < b + sz)
        violate("C04", "free/while-value-view-held", "a block was freed while another thread still holds a value view into it (before that thread's next quiescent state)",
                json::object().set("holder_thread", static_cast<u64>(t)).set("freeing_thread", tl_thread).set("key", vh::hex(h.key)));
    }
  }
}

// ------------------------------------------------------------------ free-running mode
// Threads run freely on real cores; every hook is a perturbation point (thread-local PRNG,
// no shared writes, hence no happens-before edges that would blind ThreadSanitizer).
thread_local vh::rng tl_perturb{1};
std::atomic<int> g_free_ready{0};
int g_free_threads = 0;
void free_hook(int, const void*) noexcept {
  const auto x = tl_perturb.next() & 0x3FF;
  if (x < 12) sched_yield();
  else if (x < 24) { const auto n = 20 + (tl_perturb.next() & 0x7FF); for (u64 i = 0; i < n; ++i) asm volatile("pause"); }
}

#if defined(__SANITIZE_THREAD__)
constexpr bool kTsan = true;
#else
constexpr bool kTsan = false;
#endif

// ------------------------------------------------------------------ thread body
template <class Db>
struct runner {
  using K = typename Db::key_type;
  Db* db;

  void drop_and_check_holds(int t) {
    for (const auto& h : X->holds[static_cast<std::size_t>(t)]) {
      if (h.n != 0 && std::memcmp(h.p, h.copy.data(), h.n) != 0)
        violate("C04", "view/changed-before-quiescent", "bytes behind a value view changed before the holder's next quiescent state", json::object().set("thread", t).set("key", vh::hex(h.key)));
    }
    if (!g_free_mode) rep().count("held_views_reread", X->holds[static_cast<std::size_t>(t)].size());
    X->holds[static_cast<std::size_t>(t)].clear();
  }

  void add_hold(int t, const bytes& key, const std::byte* p, std::size_t n) {
    auto& hs = X->holds[static_cast<std::size_t>(t)];
    if (hs.size() >= 16) return;
    hs.push_back({t, p, n, bytes(reinterpret_cast<const char*>(p), n), key});
  }

  void quiescent(int t) {
    drop_and_check_holds(t);
    unodb::this_thread().quiescent();
  }

  void run_op(int t, const pop& o) {
    rec rc;
    rc.thread = t;
    rc.op = o;
    const bytes& k = P->universe[static_cast<std::size_t>(o.key)];
    if (!g_free_mode) { vs::S().op_boundary(); vs::S().begin_op(); }
    switch (o.kind) {
      case OP_GET: {
        rc.call = stamp();
        barrier();
        auto g = db->get(keyconv<K>::to(k));
        barrier();
        rc.ret = stamp();
        rc.ok = g.has_value();
        if (rc.ok) {
          const std::size_t n = g->size();
          const std::byte* p = n == 0 ? nullptr : g->begin().get();
          rc.value = value_id(p, n);
          add_hold(t, k, p, n);
        }
        break;
      }
      case OP_INSERT: {
        const u64 id = (static_cast<u64>(t + 1) << 32) | (X->recs[static_cast<std::size_t>(t)].size() + 1);
        const bytes v = value_bytes(id);
        rc.value = id;
        rc.call = stamp();
        barrier();
        rc.ok = db->insert(keyconv<K>::to(k), unodb::value_view{reinterpret_cast<const std::byte*>(v.data()), v.size()});
        barrier();
        rc.ret = stamp();
        break;
      }
      case OP_REMOVE: {
        // the holder's own remove ends its views into that entry (a single registered thread frees at once)
        auto& hs = X->holds[static_cast<std::size_t>(t)];
        hs.erase(std::remove_if(hs.begin(), hs.end(), [&](const hold& h) { return h.key == k; }), hs.end());
        rc.call = stamp();
        barrier();
        rc.ok = db->remove(keyconv<K>::to(k));
        barrier();
        rc.ret = stamp();
        break;
      }
      case OP_QUIESCENT:
        quiescent(t);
        return;
      default: {
        const bytes k2 = cut_bound(P->universe[static_cast<std::size_t>(o.key2)], o.cut2);
        const bytes kc = cut_bound(k, o.cut);
        if (o.cut >= 0 || o.cut2 >= 0) rep().count("scans_with_prefix_bounds");
        auto fn = [&](const auto& v) {
          const auto kv = v.get_key();
          bytes kk(reinterpret_cast<const char*>(kv.data()), kv.size());
          const auto val = v.get_value();
          const std::size_t n = val.size();
          const std::byte* p = n == 0 ? nullptr : val.begin().get();
          rc.deliveries.push_back({kk, value_id(p, n), stamp()});
          add_hold(t, kk, p, n);
          if (rc.deliveries.size() > P->all_keys.size() + 4) { rc.halted = true; return true; }  // runaway guard
          if (o.halt_after >= 0 && static_cast<int>(rc.deliveries.size()) >= o.halt_after) { rc.halted = true; return true; }
          return false;
        };
        vm::alloc_tracker::scoped_ignore ig;
        rc.call = stamp();
        barrier();
        if (o.kind == OP_SCAN) db->scan(fn, o.fwd);
        else if (o.kind == OP_SCAN_FROM) db->scan_from(keyconv<K>::to(kc), fn, o.fwd);
        else db->scan_range(keyconv<K>::to(kc), keyconv<K>::to(k2), fn);
        barrier();
        rc.ret = stamp();
        break;
      }
    }
    X->recs[static_cast<std::size_t>(t)].push_back(std::move(rc));
    if (o.quiesce_after) quiescent(t);
  }

  void thread_main(int t, int sched_id) {
    tl_thread = t;
    if (!g_free_mode) vs::S().thread_start(sched_id);
    else {
      tl_perturb.reseed(vh::hash_combine(static_cast<u64>(sched_id), static_cast<u64>(t) + 99));
      g_free_ready.fetch_add(1, std::memory_order_relaxed);
      while (g_free_ready.load(std::memory_order_relaxed) < g_free_threads) asm volatile("pause");
    }
    for (const auto& o : P->threads[static_cast<std::size_t>(t)]) {
      if (X->violated) break;
      run_op(t, o);
    }
    drop_and_check_holds(t);
    // thread exit: QSBR unregisters in a thread_local destructor (scheduled like any other step)
  }
};

// ------------------------------------------------------------------ oracles
struct key_hist {
  std::vector<vl::op> ops;
  u64 initial{0};
};

json ops_json(const std::vector<vl::op>& ops) { json a = json::array(); for (const auto& o : ops) a.push(o.to_json()); return a; }

// scan interval membership / order in scan direction
bool in_interval(const pop& o, const bytes& k, const bytes& a, const bytes& b, bool* fwd_out) {
  if (o.kind == OP_SCAN) { *fwd_out = o.fwd; return true; }
  if (o.kind == OP_SCAN_FROM) { *fwd_out = o.fwd; return o.fwd ? vm::byte_cmp(k, a) >= 0 : vm::byte_cmp(k, a) <= 0; }
  const int c = vm::byte_cmp(a, b);
  if (c == 0) { *fwd_out = true; return false; }
  *fwd_out = c < 0;
  return c < 0 ? (vm::byte_cmp(k, a) >= 0 && vm::byte_cmp(k, b) < 0) : (vm::byte_cmp(k, a) <= 0 && vm::byte_cmp(k, b) > 0);
}

template <class Db>
void judge(Db& db, const program& p, exec_state& x, u64 end_stamp) {
  using K = typename Db::key_type;
  // final state read by the main thread after everything else
  std::map<bytes, key_hist, vm::byte_less> hist;
  for (const auto& k : p.all_keys) { auto& h = hist[k]; const auto it = p.initial.find(k); h.initial = it == p.initial.end() ? 0 : it->second; }
  u64 nops = 0;
  for (const auto& tr : x.recs)
    for (const auto& rc : tr) {
      if (rc.op.kind > OP_REMOVE) continue;
      vl::op o;
      o.kind = rc.op.kind == OP_GET ? vl::GET : (rc.op.kind == OP_INSERT ? vl::INSERT : vl::REMOVE);
      o.thread = rc.thread;
      o.call = rc.call;
      o.ret = rc.ret;
      o.ok = rc.ok;
      o.value = rc.value;
      hist[p.universe[static_cast<std::size_t>(rc.op.key)]].ops.push_back(o);
      ++nops;
    }
  u64 st = end_stamp;
  for (auto& kv : hist) {
    barrier();
    auto g = db.get(keyconv<K>::to(kv.first));
    barrier();
    vl::op o;
    o.kind = vl::GET;
    o.thread = -1;
    o.call = ++st;
    o.ret = ++st;
    o.ok = g.has_value();
    if (o.ok) { const std::size_t n = g->size(); o.value = value_id(n == 0 ? nullptr : g->begin().get(), n); }
    o.tag = 9;  // final read
    kv.second.ops.push_back(o);
  }
  // C03: per-key linearizability
  bool overlapped = false;
  for (auto& kv : hist) {
    auto& ops = kv.second.ops;
    for (std::size_t i = 0; i < ops.size() && !overlapped; ++i)
      for (std::size_t j = i + 1; j < ops.size(); ++j)
        if (ops[i].thread != ops[j].thread && ops[i].call < ops[j].ret && ops[j].call < ops[i].ret) { overlapped = true; break; }
    if (ops.size() <= 1 && kv.second.initial == (ops.empty() ? 0 : (ops[0].ok ? ops[0].value : 0))) continue;
    const auto v = vl::checker::check(ops, kv.second.initial);
    rep().count("lin_checks");
    rep().count("lin_nodes", v.nodes);
    if (v.inconclusive) { rep().inconclusive("linearizability search budget exhausted"); continue; }
    if (!v.linearizable) {
      std::string sig = "not-linearizable";
      // classify the simplest witnesses for a stable key
      for (const auto& o : ops) {
        if (o.kind == vl::GET && o.tag != 9 && !o.ok) {
          bool stable_present = kv.second.initial != 0;
          for (const auto& q : ops) if (&q != &o && q.kind != vl::GET) stable_present = false;
          if (stable_present) sig = "get-miss-present-key";
        }
      }
      return violate("C03", "lin/" + sig, "history of one key has no sequential witness consistent with real-time order",
                     json::object().set("key", vh::hex(kv.first)).set("initial_value", kv.second.initial).set("history", ops_json(ops)));
    }
  }
  if (overlapped) rep().count("executions_with_overlap_on_a_key");
  x.overlap_on_key = overlapped;
  for (const auto& tr : x.recs)
    for (const auto& sc : tr) {
      if (sc.op.kind < OP_SCAN || sc.op.kind > OP_SCAN_RANGE) continue;
      for (const auto& tr2 : x.recs)
        for (const auto& w : tr2)
          if ((w.op.kind == OP_INSERT || w.op.kind == OP_REMOVE) && w.ok && w.thread != sc.thread && w.call < sc.ret && sc.call < w.ret) x.scan_overlaps_write = true;
    }
  if (x.scan_overlaps_write) rep().count("executions_scan_overlapping_successful_write");
  // C09: scans
  for (const auto& tr : x.recs)
    for (const auto& rc : tr) {
      if (rc.op.kind < OP_SCAN || rc.op.kind > OP_SCAN_RANGE) continue;
      rep().count("scans_judged");
      const bytes a = cut_bound(p.universe[static_cast<std::size_t>(rc.op.key)], rc.op.cut);
      const bytes b = cut_bound(p.universe[static_cast<std::size_t>(rc.op.key2)], rc.op.cut2);
      bool fwd = true;
      (void)in_interval(rc.op, a, a, b, &fwd);
      json sj = json::object().set("thread", rc.thread).set("call", rc.call).set("ret", rc.ret).set("halted", rc.halted);
      json dj = json::array();
      for (const auto& d : rc.deliveries) dj.push(json::object().set("key", vh::hex(d.key)).set("value", d.value).set("stamp", d.stamp));
      sj.set("deliveries", dj);
      // order and bounds
      for (std::size_t i = 0; i < rc.deliveries.size(); ++i) {
        bool f2;
        if (!in_interval(rc.op, rc.deliveries[i].key, a, b, &f2))
          return violate("C09", "scan/outside-interval", "a scan delivered a key outside the requested interval", json::object().set("scan", sj).set("position", static_cast<u64>(i)));
        if (i > 0) {
          const int c = vm::byte_cmp(rc.deliveries[i - 1].key, rc.deliveries[i].key);
          if ((fwd && c >= 0) || (!fwd && c <= 0))
            return violate("C09", c == 0 ? "scan/duplicate" : "scan/out-of-order", "a scan delivered keys not in strictly monotone order", json::object().set("scan", sj).set("position", static_cast<u64>(i)));
        }
      }
      // per key: delivered value / absence must be consistent with some moment of the scan
      std::map<bytes, const scan_delivery*, vm::byte_less> delivered;
      for (const auto& d : rc.deliveries) delivered[d.key] = &d;
      const bytes* last = rc.deliveries.empty() ? nullptr : &rc.deliveries.back().key;
      for (const auto& kv : hist) {
        bool f2;
        const bool in = in_interval(rc.op, kv.first, a, b, &f2);
        const auto it = delivered.find(kv.first);
        if (it == delivered.end()) {
          if (!in) continue;
          if (rc.halted) {
            // obligation only up to the point where the visitor halted it
            if (last == nullptr) continue;
            const int c = vm::byte_cmp(kv.first, *last);
            if ((fwd && c > 0) || (!fwd && c < 0)) continue;
          }
        }
        auto ops = kv.second.ops;
        ops.pop_back();  // without the final read (it is after the scan anyway; keep histories minimal)
        vl::op pg;
        pg.kind = vl::GET;
        pg.thread = 100 + rc.thread;
        pg.call = rc.call;
        pg.tag = 7;  // scan observation
        if (it != delivered.end()) { pg.ok = true; pg.value = it->second->value; pg.ret = it->second->stamp; }
        else { pg.ok = false; pg.ret = rc.ret; }
        // an observation is trivially fine when the key has no writes: compare with the initial state
        ops.push_back(pg);
        const auto v = vl::checker::check(ops, kv.second.initial);
        rep().count("scan_observations_checked");
        if (v.inconclusive) { rep().inconclusive("linearizability search budget exhausted (scan observation)"); continue; }
        if (!v.linearizable) {
          const char* sig = it == delivered.end() ? "scan/stable-key-not-delivered" : "scan/value-never-held-during-scan";
          bool any_write = false;
          for (const auto& q : kv.second.ops) if (q.kind != vl::GET) any_write = true;
          if (it != delivered.end() && !any_write && kv.second.initial == 0) sig = "scan/absent-key-delivered";
          return violate("C09", sig, "a scan's observation of one key is not consistent with any moment of the scan",
                         json::object().set("key", vh::hex(kv.first)).set("initial_value", kv.second.initial).set("scan", sj).set("key_history_with_observation", ops_json(ops)));
        }
      }
      // a delivered key that can never be present at all
      for (const auto& d : rc.deliveries)
        if (hist.find(d.key) == hist.end())
          return violate("C09", "scan/unknown-key-delivered", "a scan delivered a key that was never inserted", json::object().set("scan", sj).set("key", vh::hex(d.key)));
    }
  rep().count("point_ops_judged", nops);
}

std::set<std::uintptr_t> reachable_nodes(const std::string& dump) {
  std::set<std::uintptr_t> out;
  std::size_t pos = 0;
  while ((pos = dump.find("node at: ", pos)) != std::string::npos) {
    pos += 9;
    const auto v = std::strtoull(dump.c_str() + pos, nullptr, 16);
    if (v != 0) out.insert(static_cast<std::uintptr_t>(v));
  }
  return out;
}

// After the run: drain QSBR, conservation, statistics, single-threaded sweep (scheduler active,
// only the main thread runnable: a leaked lock is a logical deadlock, not a hang).
template <class Db>
void post_checks(Db& db, const program& p, exec_state& x) {
  using K = typename Db::key_type;
  g_phase = "drain";
  unodb::this_thread().quiescent();
  unodb::this_thread().quiescent();
  auto& q = unodb::qsbr::instance();
  {
    const vs::scheduler::quiet qt;
    if (!q.previous_interval_orphaned_requests_empty() || !q.current_interval_orphaned_requests_empty() ||
        !unodb::this_thread().previous_interval_requests_empty() || !unodb::this_thread().current_interval_requests_empty())
      return violate("C04", "drain/requests-pending-after-two-quiescent-states", "deferred deallocation requests are still pending after all other threads left and the remaining thread passed two quiescent states");
  }
  // conservation: live blocks == nodes reachable from the root
  std::ostringstream os;
  {
    const vs::scheduler::quiet qt;
    db.dump(os);
  }
  const auto reach = reachable_nodes(os.str());
  if (kTsan) { rep().count("sweeps_completed"); return; }  // no allocation tracker under TSan (its lock would order library accesses)
  const auto live = vm::alloc_tracker::get().snapshot();
  for (const auto a : reach)
    if (live.count(reinterpret_cast<void*>(a)) == 0)
      return violate("C04", "conservation/reachable-node-freed", "a node reachable from the root is not a live allocation (freed while reachable)", json::object().set("address", vh::hex64(a)));
  for (const auto& kv : live)
    if (reach.count(reinterpret_cast<std::uintptr_t>(kv.first)) == 0)
      return violate("C04", "conservation/unlinked-node-never-freed", "a live block is not reachable from the root after the drain (unlinked node never freed)", json::object().set("size", static_cast<u64>(kv.second)));
  rep().count("conservation_checks");
  rep().count("nodes_reachable_at_end", reach.size());
  // statistics vs. the reference trie of the final key set (C10, concurrent part)
  g_phase = "sweep";
  std::vector<bytes> present;
  for (const auto& k : p.all_keys) {
    barrier();
    const auto g = db.get(keyconv<K>::to(k));
    barrier();
    if (g.has_value()) present.push_back(k);
  }
#ifdef UNODB_DETAIL_WITH_STATS
  {
    const auto t = vm::ref_trie::build(present, false);
    const auto counts = db.get_node_counts();
    static const char* cn[] = {"LEAF", "I4", "I16", "I48", "I256"};
    for (std::size_t c = 0; c < 5; ++c)
      if (counts[c] != t.counts[c])
        return violate("C10", std::string("olc-concurrent/node-count/") + cn[c], "after a concurrent phase the reported node count differs from the radix tree of the final key set",
                       json::object().set("class", cn[c]).set("reported", counts[c]).set("expected", t.counts[c]));
    // conservation identities that hold for any history iff growth/shrink counters move exactly with
    // structural events: a node of class X appears by grow[X] or shrink[larger], disappears by shrink[X] or grow[larger]
    const auto g = db.get_growing_inode_counts();
    const auto sh = db.get_shrinking_inode_counts();
    for (std::size_t c = 0; c < 4; ++c) {
      const long long expect = static_cast<long long>(g[c]) - static_cast<long long>(sh[c]) - (c < 3 ? static_cast<long long>(g[c + 1]) - static_cast<long long>(sh[c + 1]) : 0);
      if (expect != static_cast<long long>(counts[c + 1]))
        return violate("C10", std::string("olc-concurrent/growth-shrink-conservation/") + cn[c + 1],
                       "after a concurrent phase the growth/shrink counters do not account for the inner nodes that exist (a counter moved without a structural event, or did not move with one)",
                       json::object().set("class", cn[c + 1]).set("nodes", counts[c + 1]).set("implied_by_counters", expect)
                           .set("growing", json::array().push(g[0]).push(g[1]).push(g[2]).push(g[3])).set("shrinking", json::array().push(sh[0]).push(sh[1]).push(sh[2]).push(sh[3])));
    }
    rep().count("growth_shrink_conservation_checks");
    const auto tracked = vm::alloc_tracker::get().bytes_live();
    if (tracked != db.get_current_memory_use())
      return violate("C10", "olc-concurrent/memory-use", "after a concurrent phase and drain, allocator bytes differ from reported memory use",
                     json::object().set("allocator", static_cast<u64>(tracked)).set("reported", static_cast<u64>(db.get_current_memory_use())));
  }
#endif  // UNODB_DETAIL_WITH_STATS (the no-statistics builds of C16 skip the C10 part)
  // C14 sweep: every key, full scans, insert+remove probes next to every universe key
  std::size_t seen = 0;
  {
    vm::alloc_tracker::scoped_ignore ig;
    db.scan([&](const auto&) { ++seen; return false; }, true);
    if (seen != present.size()) return violate("C09", "sweep/forward-scan-count", "quiescent full forward scan disagrees with the gets", json::object().set("scanned", static_cast<u64>(seen)).set("present", static_cast<u64>(present.size())));
    seen = 0;
    db.scan([&](const auto&) { ++seen; return false; }, false);
    if (seen != present.size()) return violate("C09", "sweep/reverse-scan-count", "quiescent full reverse scan disagrees with the gets", json::object().set("scanned", static_cast<u64>(seen)).set("present", static_cast<u64>(present.size())));
  }
  const bytes pv = value_bytes(77);
  for (const auto& k : p.universe) {
    for (const unsigned flip : {1U, 0x80U}) {
      const std::size_t lp = std::min<std::size_t>(k.size(), 8);  // keys differ within their first 8 bytes (see make_program)
      for (const std::size_t pos : {lp - 1, lp / 2, std::size_t{0}}) {
        bytes n = k;
        n[pos] = static_cast<char>(static_cast<unsigned char>(n[pos]) ^ flip);
        if (std::binary_search(p.all_keys.begin(), p.all_keys.end(), n, vm::byte_less{})) continue;
        {
          // stay inside the D4-free domain: the probe must not need a compressed path longer than 7 bytes
          auto with_probe = present;
          with_probe.insert(std::lower_bound(with_probe.begin(), with_probe.end(), n, vm::byte_less{}), n);
          if (!vu::admissible_set(with_probe)) continue;
        }
        barrier();
        const bool i = db.insert(keyconv<K>::to(n), unodb::value_view{reinterpret_cast<const std::byte*>(pv.data()), pv.size()});
        const bool rm = db.remove(keyconv<K>::to(n));
        barrier();
        if (!i || !rm) return violate("C03", "sweep/probe-insert-remove", "quiescent insert+remove probe of an absent key failed", json::object().set("key", vh::hex(n)).set("insert", i).set("remove", rm));
      }
    }
  }
  rep().count("sweeps_completed");
  (void)x;
}

struct exec_result { u64 steps{0}, switches{0}, intra{0}, signature{0}, spins{0}, restarts{0}, frees{0}; std::vector<u64> local_steps; bool violated{false}, overlap{false}, scan_write{false}; };

template <class Db>
exec_result execute(const program& p, u64 seed, const vs::params& prm) {
  using K = typename Db::key_type;
  exec_state x;
  x.recs.resize(p.threads.size());
  x.holds.resize(p.threads.size());
  X = &x;
  P = &p;
  exec_result res;
  tl_thread = -1;
  rep().progress_case(g_case, g_exec_desc.c_str());
  auto& S = vs::S();
  {
    g_phase = "setup";
    Db db;
    for (const auto& kv : p.initial) {
      const bytes v = value_bytes(kv.second);
      if (!db.insert(keyconv<K>::to(kv.first), unodb::value_view{reinterpret_cast<const std::byte*>(v.data()), v.size()})) { rep().inconclusive("setup insert failed"); }
    }
    runner<Db> rn{&db};
    g_phase = "run";
    S.begin(seed, prm);
    g_track_frees.store(true);
    unodb::this_thread().qsbr_pause();
    std::vector<unodb::qsbr_thread> ths;
    std::vector<int> ids;
    ths.reserve(p.threads.size());
    for (std::size_t t = 0; t < p.threads.size(); ++t) {
      const int id = S.spawn_slot();
      ids.push_back(id);
      ths.emplace_back([&rn, t, id] { rn.thread_main(static_cast<int>(t), id); });
      S.activate(id);
    }
    for (std::size_t t = 0; t < ths.size(); ++t) S.join(ids[t], ths[t]);
    unodb::this_thread().qsbr_resume();
    g_track_frees.store(false);
    res.steps = S.steps;
    res.switches = S.nswitches;
    res.intra = S.intra_op_switches;
    res.signature = S.signature;
    res.spins = S.spins;
    res.restarts = S.restarts;
    for (const int id : ids) res.local_steps.push_back(S.local_steps(id));
    const u64 end_stamp = S.stamp();
    // the remaining checks run with the scheduler still active (only this thread is left)
    if (!x.violated) { g_phase = "judge"; judge(db, p, x, end_stamp); }
    if (!x.violated) post_checks(db, p, x);
    const auto sw = S.switches_json(400);
    S.end();
    rep().evaluation();
    rep().count("executions");
    rep().count("steps", res.steps);
    rep().count("context_switches", res.switches);
    rep().count("intra_operation_switches", res.intra);
    rep().count("spin_waits", res.spins);
    rep().count("operation_restarts", res.restarts);
    rep().count("frees_during_concurrent_phase", x.frees_during_run);
    if (res.spins + res.restarts > 0) rep().count("executions_with_spin_or_restart");
    if (S.patient_polls > 1000000) rep().count("executions_with_a_waiter_starved_for_2e20_polls");
    if (x.frees_during_run > 0) rep().count("executions_with_free_during_run");
    if (x.violated) {
      x.vwitness.set("program", p.to_json()).set("execution", g_exec_desc).set("switches_step_from_to_kind", sw);
      rep().violation(x.vprop, "olc_conc/" + x.vkey, x.vwhat, std::move(x.vwitness));
    }
    g_phase = "teardown";
  }
  res.violated = x.violated;
  res.overlap = x.overlap_on_key;
  res.scan_write = x.scan_overlaps_write;
  res.frees = x.frees_during_run;
  const auto leaked = vm::alloc_tracker::get().bytes_live();
  if (!x.violated && leaked != 0) {
    rep().violation("C04", "olc_conc/conservation/leak-after-destruction", "bytes still held from the allocator after the index was destroyed", json::object().set("bytes", static_cast<u64>(leaked)).set("program", p.to_json()));
    res.violated = true;
  }
  X = nullptr;
  return res;
}

// On an assertion abort / sanitizer report: print which execution was running and its
// schedule so far, then let the process die (the driver reads stderr).
void crash_context(int sig) {
  static bool once = false;
  if (!once) {
    once = true;
    json wj = json::object().set("case", g_case).set("execution", g_exec_desc).set("phase", g_phase);
    if (P != nullptr) wj.set("program", P->to_json());
    wj.set("switches_step_from_to_kind", vs::S().switches_json(400));
    const auto text = "\nVERIF-CRASH-CONTEXT: " + wj.dump() + "\n";
    (void)!write(2, text.data(), text.size());
  }
  signal(sig, SIG_DFL);
  raise(sig);
}

// One free-running round of program p: real parallel threads, atomic stamps, same oracles afterwards.
template <class Db>
bool execute_free(const program& p, u64 round_seed) {
  using K = typename Db::key_type;
  exec_state x;
  x.recs.resize(p.threads.size());
  x.holds.resize(p.threads.size());
  X = &x;
  P = &p;
  tl_thread = -1;
  g_free_clock.store(0);
  g_free_ready.store(0);
  g_free_threads = static_cast<int>(p.threads.size());
  rep().progress_case(g_case, g_exec_desc.c_str());
  {
    g_phase = "setup";
    Db db;
    for (const auto& kv : p.initial) {
      const bytes v = value_bytes(kv.second);
      (void)db.insert(keyconv<K>::to(kv.first), unodb::value_view{reinterpret_cast<const std::byte*>(v.data()), v.size()});
    }
    runner<Db> rn{&db};
    g_phase = "run";
    g_track_frees.store(true);
    unodb::this_thread().qsbr_pause();
    {
      std::vector<unodb::qsbr_thread> ths;
      ths.reserve(p.threads.size());
      for (std::size_t t = 0; t < p.threads.size(); ++t) ths.emplace_back([&rn, t, round_seed] { rn.thread_main(static_cast<int>(t), static_cast<int>(round_seed & 0xFFFF) + static_cast<int>(t)); });
      for (auto& t : ths) t.join();
    }
    unodb::this_thread().qsbr_resume();
    g_track_frees.store(false);
    const u64 end_stamp = g_free_clock.load() + 10;
    if (!x.violated) { g_phase = "judge"; judge(db, p, x, end_stamp); }
    if (!x.violated) post_checks(db, p, x);
    rep().evaluation();
    rep().count("free_rounds");
    if (x.overlap_on_key) rep().nontrivial(vh::hash_combine(vh::hash_combine(g_case, round_seed), x.scan_overlaps_write ? 3 : 5));
    if (x.violated) {
      x.vwitness.set("program", p.to_json()).set("execution", g_exec_desc).set("mode", "free-running");
      rep().violation(x.vprop, "olc_conc/" + x.vkey, x.vwhat, std::move(x.vwitness));
    }
    g_phase = "teardown";
  }
  const bool bad = x.violated;
  if (!kTsan && !bad && vm::alloc_tracker::get().bytes_live() != 0) {
    rep().violation("C04", "olc_conc/conservation/leak-after-destruction", "bytes still held from the allocator after the index was destroyed", json::object().set("program", p.to_json()));
    X = nullptr;
    return false;
  }
  X = nullptr;
  return !bad;
}

template <class Db>
bool run_case_free(u64 c, vh::rng& r, const vh::args& a) {
  program p = make_program(r, r.chance(0.3), a, std::is_same_v<typename Db::key_type, unodb::key_view>);
  p.keykind = keyconv<typename Db::key_type>::name;
  if (c < 2) rep().sample(json::object().set("program", p.to_json()).set("mode", "free-running"), 3);
  const u64 rounds = a.num("rounds", 30);
  for (u64 k = 0; k < rounds; ++k) {
    g_exec_desc = "free round " + std::to_string(k);
    if (!execute_free<Db>(p, vh::case_seed(rep().seed, c, 300 + k))) return false;
  }
  return true;
}

void fatal_handler(const std::string& kind, const std::string& what) {
  json wj = json::object().set("execution", g_exec_desc).set("phase", g_phase).set("scheduler", what);
  if (P != nullptr) wj.set("program", P->to_json());
  wj.set("switches_step_from_to_kind", vs::S().switches_json(400));
  const std::string key = g_phase == "run" ? "olc_conc/" + kind : "olc_conc/" + kind + "-in-" + g_phase;
  rep().violation("C14", key, "scheduler verdict: " + kind + " during phase '" + g_phase + "' (" + what + ")", std::move(wj));
  rep().set_resume(g_case + 1);
  rep().finish();
}

template <class Db>
bool run_case_t(u64 c, vh::rng& r, const vh::args& a, bool small) {
  program p = make_program(r, small, a, std::is_same_v<typename Db::key_type, unodb::key_view>);
  p.keykind = keyconv<typename Db::key_type>::name;
  if (c < 3) rep().sample(json::object().set("program", p.to_json()), 3);
  rep().count("family." + p.family.substr(0, p.family.find('-')));
  const int nt = static_cast<int>(p.threads.size());
  auto note = [&](const exec_result& e) {
    const u64 h = vh::hash_combine(vh::hash_combine(g_case, rep().seed), e.signature);
    const bool intra = e.intra > 0;
    if (g_prop == "C14") { if (e.spins + e.restarts > 0) rep().nontrivial(h); }
    else if (g_prop == "C04") { if (intra && e.frees > 0) rep().nontrivial(h); }
    else if (g_prop == "C09") { if (intra && e.scan_write) rep().nontrivial(h); }
    else if (intra && e.overlap) rep().nontrivial(h);
  };
  vs::params base;
  base.strat = vs::strategy::PCT;
  base.priority_order.push_back(0);
  for (int t = 0; t < nt; ++t) base.priority_order.push_back(t + 1);
  g_exec_desc = "baseline";
  const auto b = execute<Db>(p, 1, base);
  if (b.violated) return false;
  if (small) {
    // exhaustive depth-1: each thread preempted at each of its points, the others in each order
    u64 sweep = 0;
    for (int t = 0; t < nt; ++t) {
      vs::params first = base;
      first.priority_order = {0, t + 1};
      for (int o = 0; o < nt; ++o) if (o != t) first.priority_order.push_back(o + 1);
      g_exec_desc = "count T" + std::to_string(t);
      const auto cnt = execute<Db>(p, 1, first);
      if (cnt.violated) return false;
      const u64 points = cnt.local_steps[static_cast<std::size_t>(t)];
      for (u64 i = 1; i <= points; ++i) {
        for (int rot = 0; rot < (nt == 3 ? 2 : 1); ++rot) {
          vs::params q = first;
          if (rot == 1) std::swap(q.priority_order[2], q.priority_order[3]);
          q.changes.push_back({t + 1, i});
          g_exec_desc = "depth1 T" + std::to_string(t) + "@" + std::to_string(i) + " rot" + std::to_string(rot);
          const auto e = execute<Db>(p, 1, q);
          ++sweep;
          note(e);
          if (e.violated) return false;
        }
      }
    }
    rep().count("depth1_sweep_executions", sweep);
    rep().count("programs_swept_depth1");
  } else {
    const u64 n = a.num("explore", 60);
    for (u64 k = 0; k < n; ++k) {
      vs::params q;
      vh::rng rr(vh::case_seed(rep().seed, c, 9000 + k));
      if (k % 4 == 3) {
        q.strat = vs::strategy::RANDOM;
        q.switch_prob = 0.05 + 0.1 * static_cast<double>(rr.below(3));
        g_exec_desc = "random walk " + std::to_string(k);
      } else {
        q.strat = vs::strategy::PCT;
        q.priority_order.push_back(0);
        std::vector<int> order;
        for (int t = 0; t < nt; ++t) order.push_back(t + 1);
        for (std::size_t i = order.size(); i > 1; --i) std::swap(order[i - 1], order[rr.below(i)]);
        for (const int t : order) q.priority_order.push_back(t);
        const auto d = 1 + rr.below(3);
        for (u64 j = 0; j < d; ++j) q.changes.push_back({-1, 1 + rr.below(b.steps + 10)});
        g_exec_desc = "pct d=" + std::to_string(d) + " #" + std::to_string(k);
        if (k % 4 == 1) {
          // preemptions aimed at the windows right before lock-word writes and QSBR updates
          using namespace unodb::verif;
          const double pr = 0.04 + 0.06 * static_cast<double>(rr.below(3));
          q.kind_demote = {{LOCK_CAS, pr}, {LOCK_UNLOCK, pr}, {LOCK_OBSOLETE, pr}, {ORPHAN_XCHG, pr}, {ORPHAN_CAS, pr}, {QSBR_STATE_CAS, pr}};
          g_exec_desc += " +kind-demote";
          if (rr.chance(0.12)) {
            // starvation probe: the first waiter of this execution polls ~2^20 times before the lock holder runs again
            q.spin_patience = 1100000 + rr.below(300000);
            q.max_steps += 3 * q.spin_patience;
            g_exec_desc += " +starve";
          }
        }
      }
      const auto e = execute<Db>(p, vh::case_seed(rep().seed, c, 100 + k), q);
      note(e);
      if (e.violated) return false;
    }
    rep().count("exploration_executions", n);
  }
  return true;
}

}  // namespace

int main(int argc, char** argv) {
  const vh::args a(argc, argv);
  rep().init(a, "olc_conc");
  g_prop = a.str("prop", "C03");
  g_free_mode = a.str("mode", "sched") == "free";
  if (!(g_free_mode && kTsan)) {
    unodb::verif::on_alloc.store(alloc_cb);
    unodb::verif::on_dealloc.store(dealloc_cb);
  }
  if (g_free_mode) unodb::verif::on_sched.store(&free_hook);
  else vs::install_hooks();
  vs::S().on_fatal = fatal_handler;
  signal(SIGABRT, crash_context);
  signal(SIGSEGV, crash_context);
  const vh::case_range cr(a);
  using V = unodb::value_view;
  for (u64 c = cr.begin; c < cr.end; ++c) {
    g_case = c;
    rep().progress_case(c, g_prop.c_str());
    vh::rng r(vh::case_seed(rep().seed, c, 0x01C));
    const bool small = a.has("small") ? a.num("small") != 0 : (c % 2 == 0);
    const bool kv = r.chance(0.4);
    bool ok;
    if (g_free_mode) ok = kv ? run_case_free<unodb::olc_db<unodb::key_view, V>>(c, r, a) : run_case_free<unodb::olc_db<std::uint64_t, V>>(c, r, a);
    else ok = kv ? run_case_t<unodb::olc_db<unodb::key_view, V>>(c, r, a, small) : run_case_t<unodb::olc_db<std::uint64_t, V>>(c, r, a, small);
    rep().count(kv ? "programs.key_view" : "programs.u64");
    if (!ok) {
      // a violation may leave process-global QSBR state behind: continue in a fresh process
      rep().set_resume(c + 1);
      break;
    }
  }
  rep().finish();
  return 0;
}
