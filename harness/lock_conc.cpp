// E2/C07: one unodb::optimistic_lock and a few in_critical_section fields under
// the serialized scheduler. Shadow state decides:
//   * at most one write guard active at any moment
//   * a read section whose check / unlock succeeded did not overlap a write-locked period
//   * values read under a validated section are one writer's complete write (or the initial state)
//   * an upgrade succeeds only if no writer acquired the lock since the section was opened
//   * after obsoletion: no section opens, no upgrade succeeds, open sections fail their next check
// Shadow counters lag only in the permissive direction: w_begin is incremented
// right after the upgrade returned, w_end right before unlock is called,
// `obsolete` is set after unlock_and_obsolete returned.
// A case = one program; per case: baseline run, exhaustive depth-1 preemption
// sweep, optional exhaustive depth-2 sweep (small 2-thread programs), random walks.
#include "global.hpp"

#include <memory>
#include <thread>
#include <vector>

#include "optimistic_lock.hpp"

#include "common/sched.hpp"
#include "common/vh.hpp"

using vh::json;
using vh::rep;
using vh::u64;

namespace {

constexpr int MAXF = 4;

enum opk { OP_READ, OP_WRITE, OP_WRITE_OBSOLETE, OP_UPGRADE_ONLY };

struct lop {
  int kind;
  int reads_before;   // WRITE: fields read under the section before upgrading
  int mid_checks;     // READ: number of check() calls between field reads
  bool explicit_unlock;
};

struct program {
  int nfields;
  std::vector<std::vector<lop>> threads;
  json to_json() const {
    static const char* names[] = {"read", "write", "write+obsolete", "upgrade-only"};
    json t = json::array();
    for (const auto& th : threads) {
      json ops = json::array();
      for (const auto& o : th) ops.push(json::object().set("op", names[o.kind]).set("reads_before", o.reads_before).set("mid_checks", o.mid_checks).set("explicit_unlock", o.explicit_unlock));
      t.push(ops);
    }
    return json::object().set("fields", nfields).set("threads", t);
  }
};

program make_program(vh::rng& r, int force_threads = 0) {
  program p;
  p.nfields = 2 + static_cast<int>(r.below(3));
  const int nt = force_threads != 0 ? force_threads : 2 + static_cast<int>(r.below(2));
  bool any_writer = false;
  for (int t = 0; t < nt; ++t) {
    std::vector<lop> ops;
    const auto n = 1 + r.below(force_threads == 2 ? 2 : 4);
    for (u64 i = 0; i < n; ++i) {
      lop o{};
      const auto x = r.below(100);
      o.kind = x < 40 ? OP_READ : (x < 82 ? OP_WRITE : (x < 92 ? OP_WRITE_OBSOLETE : OP_UPGRADE_ONLY));
      o.reads_before = static_cast<int>(r.below(3));
      o.mid_checks = static_cast<int>(r.below(3));
      o.explicit_unlock = r.chance(0.5);
      if (o.kind != OP_READ) any_writer = true;
      ops.push_back(o);
    }
    p.threads.push_back(ops);
  }
  if (!any_writer) p.threads[0][0].kind = OP_WRITE;
  return p;
}

// ---------------------------------------------------------------- one execution
struct world {
  unodb::optimistic_lock lock;
  unodb::in_critical_section<std::uint64_t> f[MAXF];
  // shadow
  u64 w_begin{0}, w_end{0};
  bool obsolete{false};
  u64 next_token{100};
  std::vector<u64> tokens{0};  // complete values ever written (0 = initial)
  // observations
  u64 validated_reads{0}, failed_validations{0}, upgrades_ok{0}, upgrades_failed{0}, obsolete_seen{0}, write_overlapped_open_read{0};
  int open_reads{0};
  bool violated{false};
  std::string vkey, vwhat;
  json vwitness;
};

world* W = nullptr;
const program* P = nullptr;

void violate(const std::string& key, const std::string& what, json w = json::object()) {
  if (W->violated) return;
  W->violated = true;
  W->vkey = key;
  W->vwhat = what;
  W->vwitness = std::move(w);
}

void run_read(int tid, const lop& o) {
  auto& w = *W;
  const bool obs_before_call = w.obsolete;
  auto rcs = w.lock.try_read_lock();
  const u64 wb0 = w.w_begin, we0 = w.w_end;  // snapshot right after the section opened
  if (rcs.must_restart()) { ++w.obsolete_seen; return; }
  if (obs_before_call) return violate("lock/obsolete/read-section-opened", "a read section was opened on a lock that had been made obsolete", json::object().set("thread", tid));
  ++w.open_reads;
  u64 vals[MAXF];
  bool valid = true;
  int checks_left = o.mid_checks;
  for (int i = 0; i < P->nfields && valid; ++i) {
    vals[i] = w.f[i].load();
    if (checks_left > 0 && i + 1 < P->nfields) {
      --checks_left;
      const u64 wb1 = w.w_begin;
      const bool obs1 = w.obsolete;
      valid = rcs.check();
      if (valid && (wb0 != we0 || wb1 != wb0)) { --w.open_reads; return violate("lock/read/validated-across-writer", "check() succeeded although a writer was active since the section was opened", json::object().set("thread", tid).set("w_begin_at_open", wb0).set("w_end_at_open", we0).set("w_begin_at_check", wb1)); }
      if (valid && obs1) { --w.open_reads; return violate("lock/obsolete/open-section-passed-check", "an open section passed a check after the lock was made obsolete", json::object().set("thread", tid)); }
    }
  }
  if (valid) {
    const u64 wb1 = w.w_begin;
    const bool obs1 = w.obsolete;
    const bool ok = rcs.try_read_unlock();
    --w.open_reads;
    if (ok) {
      ++w.validated_reads;
      if (wb0 != we0 || wb1 != wb0) return violate("lock/read/validated-across-writer", "try_read_unlock() succeeded although a writer was active since the section was opened", json::object().set("thread", tid).set("w_begin_at_open", wb0).set("w_end_at_open", we0).set("w_begin_at_unlock", wb1));
      if (obs1) return violate("lock/obsolete/open-section-passed-check", "an open section passed its unlock check after the lock was made obsolete", json::object().set("thread", tid));
      bool same = true;
      for (int i = 1; i < P->nfields; ++i) same &= vals[i] == vals[0];
      bool known = false;
      for (const u64 t : w.tokens) known |= t == vals[0];
      if (!same || !known) {
        json v = json::array();
        for (int i = 0; i < P->nfields; ++i) v.push(vals[i]);
        return violate("lock/read/torn-snapshot", "values read under a validated section are not one writer's complete write", json::object().set("thread", tid).set("values", v));
      }
    } else {
      ++w.failed_validations;
    }
  } else {
    --w.open_reads;
    ++w.failed_validations;
  }
}

void run_write(int tid, const lop& o) {
  auto& w = *W;
  const bool obs_before_call = w.obsolete;
  auto rcs = w.lock.try_read_lock();
  const u64 wb0 = w.w_begin, we0 = w.w_end;
  if (rcs.must_restart()) { ++w.obsolete_seen; return; }
  if (obs_before_call) return violate("lock/obsolete/read-section-opened", "a read section was opened on a lock that had been made obsolete", json::object().set("thread", tid));
  for (int i = 0; i < o.reads_before && i < P->nfields; ++i) (void)w.f[i].load();
  const bool obs1 = w.obsolete;
  {
    unodb::optimistic_lock::write_guard g{std::move(rcs)};
    if (g.must_restart()) { ++w.upgrades_failed; return; }
    // ---- upgrade returned: shadow writer becomes active
    const u64 wb_now = w.w_begin;
    ++w.w_begin;
    ++w.upgrades_ok;
    if (w.w_begin - w.w_end > 1) return violate("lock/write/two-guards-active", "two write guards are active on one lock", json::object().set("thread", tid).set("w_begin", w.w_begin).set("w_end", w.w_end));
    if (wb_now != wb0 || wb0 != we0) return violate("lock/upgrade/succeeded-after-other-writer", "an upgrade succeeded although another writer acquired the lock since the section was opened", json::object().set("thread", tid).set("w_begin_at_open", wb0).set("w_end_at_open", we0).set("w_begin_at_upgrade", wb_now));
    if (obs1) return violate("lock/obsolete/upgrade-succeeded", "an upgrade succeeded after the lock was made obsolete", json::object().set("thread", tid));
    if (w.open_reads > 0) ++w.write_overlapped_open_read;
    if (o.kind != OP_UPGRADE_ONLY) {
      const u64 token = w.next_token++;
      for (int i = 0; i < P->nfields; ++i) w.f[i].store(token);  // mid-write the invariant is false
      w.tokens.push_back(token);
    }
    // ---- about to unlock: shadow writer becomes inactive
    ++w.w_end;
    if (o.kind == OP_WRITE_OBSOLETE) {
      g.unlock_and_obsolete();
      w.obsolete = true;
    } else if (o.explicit_unlock) {
      g.unlock();
    }
  }
}

void thread_body(int tid, int sched_id) {
  vs::S().thread_start(sched_id);
  for (const auto& o : P->threads[static_cast<std::size_t>(tid)]) {
    if (W->violated) break;
    vs::S().op_boundary();
    if (o.kind == OP_READ) run_read(tid, o);
    else run_write(tid, o);
  }
}

struct exec_result {
  u64 steps, switches, intra, signature, spins;
  std::vector<u64> local_steps;
  bool violated;
};

u64 g_case = 0;
std::string g_exec_desc;

exec_result execute(const program& p, u64 seed, const vs::params& prm) {
  world w;
  for (auto& x : w.f) x.store(0);
  W = &w;
  P = &p;
  auto& S = vs::S();
  S.begin(seed, prm);
  std::vector<std::thread> ths;
  std::vector<int> ids;
  for (std::size_t t = 0; t < p.threads.size(); ++t) {
    const int id = S.spawn_slot();
    ids.push_back(id);
    ths.emplace_back(thread_body, static_cast<int>(t), id);
    S.activate(id);
  }
  for (std::size_t t = 0; t < ths.size(); ++t) S.join(ids[t], ths[t]);
  exec_result res{S.steps, S.nswitches, S.intra_op_switches, S.signature, S.spins, {}, w.violated};
  for (const int id : ids) res.local_steps.push_back(S.local_steps(id));
  const auto sw = S.switches_json(300);
  S.end();
  rep().evaluation();
  rep().count("executions");
  rep().count("steps", res.steps);
  rep().count("context_switches", res.switches);
  rep().count("validated_reads", w.validated_reads);
  rep().count("failed_validations", w.failed_validations);
  rep().count("upgrades_ok", w.upgrades_ok);
  rep().count("upgrades_failed", w.upgrades_failed);
  rep().count("obsolete_seen_by_try_read_lock", w.obsolete_seen);
  rep().count("spin_waits", res.spins);
  if (w.write_overlapped_open_read > 0) {
    rep().count("executions_write_overlapping_open_read");
    rep().nontrivial(vh::hash_combine(vh::hash_combine(g_case, rep().seed), res.signature));
  }
  if (w.violated) {
    w.vwitness.set("program", p.to_json()).set("execution", g_exec_desc).set("switches_step_from_to_kind", sw);
    rep().violation("C07", "lock_conc/" + w.vkey, w.vwhat, std::move(w.vwitness));
  }
  W = nullptr;
  return res;
}

void fatal_handler(const std::string& kind, const std::string& what) {
  json wj = json::object().set("execution", g_exec_desc).set("scheduler", what);
  if (P != nullptr) wj.set("program", P->to_json());
  wj.set("switches_step_from_to_kind", vs::S().switches_json(300));
  rep().violation("C07", "lock_conc/" + kind, "scheduler verdict: " + kind + " (" + what + ")", std::move(wj));
  rep().set_resume(g_case + 1);
  rep().finish();
}

void run_case(u64 c, const vh::args& a) {
  vh::rng r(vh::case_seed(rep().seed, c, 0x10C));
  const bool small = r.chance(0.5);
  const program p = make_program(r, small ? 2 : 0);
  if (c < 2) rep().sample(json::object().set("program", p.to_json()), 3);
  // 1. baseline: fixed priority order, no preemption
  vs::params base;
  base.strat = vs::strategy::PCT;
  for (std::size_t t = 0; t < p.threads.size(); ++t) base.priority_order.push_back(static_cast<int>(t) + 1);
  g_exec_desc = "baseline";
  const auto b = execute(p, 1, base);
  if (b.violated) return;
  // 2. exhaustive depth-1 sweep: each thread preempted at each of its points, others in each order
  const int nt = static_cast<int>(p.threads.size());
  u64 sweep = 0;
  for (int t = 0; t < nt; ++t) {
    // how many points thread t executes when it runs first
    vs::params first = base;
    first.priority_order.clear();
    first.priority_order.push_back(t + 1);
    for (int o = 0; o < nt; ++o) if (o != t) first.priority_order.push_back(o + 1);
    g_exec_desc = "count T" + std::to_string(t);
    const auto cnt = execute(p, 1, first);
    if (cnt.violated) return;
    const u64 points = cnt.local_steps[static_cast<std::size_t>(t)];
    for (u64 i = 1; i <= points; ++i) {
      // rotate the order of the other threads
      for (int rot = 0; rot < (nt == 3 ? 2 : 1); ++rot) {
        vs::params q = first;
        if (rot == 1) std::swap(q.priority_order[1], q.priority_order[2]);
        q.changes.push_back({t + 1, i});
        g_exec_desc = "depth1 T" + std::to_string(t) + "@" + std::to_string(i) + " rot" + std::to_string(rot);
        const auto e = execute(p, 1, q);
        ++sweep;
        if (e.violated) return;
      }
    }
  }
  rep().count("depth1_sweep_executions", sweep);
  rep().count("programs_swept_depth1");
  // 3. exhaustive depth-2 for small 2-thread programs: two global change points
  if (nt == 2 && b.steps <= a.num("depth2-max-steps", 60)) {
    u64 d2 = 0;
    for (int firstT = 0; firstT < 2; ++firstT) {
      vs::params o2 = base;
      o2.priority_order = {firstT + 1, 2 - firstT};
      for (u64 i = 1; i <= b.steps + 2; ++i) {
        for (u64 j = i + 1; j <= b.steps + 4; ++j) {
          vs::params q = o2;
          q.changes.push_back({-1, i});
          q.changes.push_back({-1, j});
          g_exec_desc = "depth2 first=T" + std::to_string(firstT) + " g@" + std::to_string(i) + "," + std::to_string(j);
          const auto e = execute(p, 1, q);
          ++d2;
          if (e.violated) return;
        }
      }
    }
    rep().count("depth2_sweep_executions", d2);
    rep().count("programs_swept_depth2");
  }
  // 4. random walks
  const u64 walks = a.num("walks", 40);
  for (u64 k = 0; k < walks; ++k) {
    vs::params q;
    q.strat = vs::strategy::RANDOM;
    q.switch_prob = k % 2 == 0 ? 0.3 : 0.1;
    g_exec_desc = "random walk " + std::to_string(k);
    const auto e = execute(p, vh::case_seed(rep().seed, c, 7000 + k), q);
    if (e.violated) return;
  }
  rep().count("random_walk_executions", walks);
}

}  // namespace

int main(int argc, char** argv) {
  const vh::args a(argc, argv);
  rep().init(a, "lock_conc");
  vs::install_hooks();
  vs::S().on_fatal = fatal_handler;
  const vh::case_range cr(a);
  for (u64 c = cr.begin; c < cr.end; ++c) {
    g_case = c;
    rep().progress_case(c, "lock");
    run_case(c, a);
    rep().count("programs");
    if (rep().violations_for("C07") >= 6) break;
  }
  rep().finish();
  return 0;
}
